"""C09 - Newton-Raphson driver: structural clauses on a hand-built CFG."""
import ast
import re

from . import pyflow, pyrules
from .pyflow import CFG, dotted, callee_name
from .pyrules import module, norm
from .poly import P, from_ast

LEVEL = 'other'
COPIES = ('c.copy()', 'np.copy(c)', 'np.array(c,copy=True)', 'np.array(c)', 'copy.copy(c)', 'copy.deepcopy(c)', 'c+0', 'c*1', 'c*1.0')
NR = 'compmech/analysis/newton_raphson.py'
ANALYSIS = 'compmech/analysis/analysis.py'


def stores(n):
    return pyflow.names_stored(n) if n is not None else []


def bool_states(cfg, var, entry=None):
    """forward propagation of the possible values of a boolean flag: node -> set of 'T','F','?'.
    With ``entry`` (a loop header) the analysis describes ONE iteration: it starts there with an
    unknown value and values are not carried around the back edge."""
    state = {i: set() for i in cfg.nodes}
    start = cfg.ENTRY if entry is None else entry
    state[start] = {'?'}
    todo = [start]
    while todo:
        x = todo.pop()
        n = cfg.nodes[x]
        out = set(state[x])
        if isinstance(n, ast.Assign) and len(n.targets) == 1 and norm(n.targets[0]) == var:
            if isinstance(n.value, ast.Constant) and isinstance(n.value.value, bool):
                out = {'T' if n.value.value else 'F'}
            else:
                out = {'?'}
        for y in cfg.succ[x]:
            o = set(out)
            if isinstance(n, ast.If) and norm(n.test) == var:
                body_first = cfg.node_of_stmt(n.body[0])
                if y == body_first:
                    o = {v for v in o if v in ('T', '?')}
                else:
                    o = {v for v in o if v in ('F', '?')}
            if entry is not None and y == entry:
                continue
            if not o <= state[y]:
                state[y] |= o
                todo.append(y)
    return state


def region(cfg, start, stops):
    """nodes reachable from start without passing a stop node (stops excluded, start excluded)"""
    seen = set()
    todo = list(cfg.succ[start])
    while todo:
        x = todo.pop()
        if x in seen or x in stops:
            continue
        seen.add(x)
        todo.extend(cfg.succ[x])
    return seen


def run(chk):
    chk.level = LEVEL
    chk.trusted = ['python3 ast', 'statement CFG (vcheck/pyflow.py)', 'list.append / ndarray.copy semantics']
    chk.assumptions = ['termination and strict monotonicity as theorems over real sequences are not decided; '
                       'user callables are assumed not to mutate their arguments']
    m = module(NR)
    fn = m.function('_solver_NR')
    fname = '_solver_NR'
    cfg = CFG(fn)
    run_ = fn.args.args[0].arg
    whiles = [n for n in ast.walk(fn) if isinstance(n, ast.While)]
    chk.floor('while loops of _solver_NR', len(whiles), 3)

    def find(pred):
        return cfg.ids_where(lambda i, n: pred(n))
    app_inc = find(lambda n: isinstance(n, ast.Expr) and norm(n.value).startswith('%s.increments.append(' % run_))
    app_cs = find(lambda n: isinstance(n, ast.Expr) and norm(n.value).startswith('%s.cs.append(' % run_))
    chk.floor('append sites', len(app_inc) + len(app_cs), 2)
    other_mut = []
    for n in ast.walk(fn):
        tg = n.targets if isinstance(n, ast.Assign) else [n.target] if isinstance(n, ast.AugAssign) else []
        for t in tg:
            if re.match(r'^%s\.(cs|increments)(\[|$)' % run_, norm(t)):
                other_mut.append((n.lineno, norm(n)[:50]))
        if isinstance(n, ast.Call) and isinstance(n.func, ast.Attribute) and norm(n.func.value) in ('%s.cs' % run_, '%s.increments' % run_) \
                and n.func.attr in ('insert', 'extend', 'pop', 'clear', 'remove', 'sort', 'reverse', '__setitem__'):
            other_mut.append((n.lineno, norm(n)[:50]))
    chk.ob('R09.1', not other_mut, NR, fname, 'results are only appended', expected='run.cs / run.increments modified by append only', got=other_mut)
    # ---- R09.1 appends only when converged
    # one load step = one iteration of the outermost loop: the flag must be re-established in every step
    outer = [w for w in ast.walk(fn) if isinstance(w, ast.While) and pyrules.enclosing_tests(fn, w) == [] and
             not any(w is not w2 and any(x is w for x in ast.walk(w2)) for w2 in ast.walk(fn) if isinstance(w2, ast.While))]
    chk.need(len(outer) == 1, '_solver_NR: outer load-step loop not found')
    st = bool_states(cfg, 'converged', entry=cfg.node_of_stmt(outer[0]))
    conv_true = find(lambda n: isinstance(n, ast.Assign) and norm(n) == 'converged=True')
    chk.ob('R09.1', len(conv_true) == 1, NR, fname, 'single convergence assignment', got=len(conv_true))
    for i in app_inc + app_cs:
        chk.ob('R09.1', st[i] == {'T'}, NR, fname, 'append dominated by converged == True: ' + norm(cfg.nodes[i])[:40], line=cfg.nodes[i].lineno,
               expected='within one load step, on every path reaching the append the convergence flag was set to True in that step', got=sorted(st[i]),
               sample='%s under converged in %s' % (norm(cfg.nodes[i])[:40], sorted(st[i])))
    if len(conv_true) != 1:
        return
    nconv = conv_true[0]
    tests = [(t, pol) for t, pol in pyrules.enclosing_tests(fn, cfg.nodes[nconv])]
    inner = tests[-1] if tests else (None, None)
    conj = [norm(v) for v in inner[0].values] if inner[0] is not None and isinstance(inner[0], ast.BoolOp) and isinstance(inner[0].op, ast.And) else [norm(inner[0])] if inner[0] is not None else []
    chk.ob('R09.1', inner[1] is True and 'Rmax<%s.absTOL' % run_ in conj, NR, fname, 'convergence criterion', line=cfg.nodes[nconv].lineno,
           expected='converged = True only under ... and Rmax < run.absTOL', got=conj, sample='converged = True under %s' % conj)
    # definitions: Rmax = abs(R).max(); R = fext - fint; fint = calc_fint(c=c, inc=total); fext = calc_fext(inc=total)
    defs = {}
    for i, n in cfg.nodes.items():
        if isinstance(n, ast.Assign) and isinstance(n.targets[0], ast.Name):
            defs.setdefault(n.targets[0].id, []).append(i)

    def reaching(name, at):
        seen, out, todo = set(), [], list(cfg.pred[at])
        while todo:
            x = todo.pop()
            if x in seen:
                continue
            seen.add(x)
            if cfg.nodes[x] is not None and name in stores(cfg.nodes[x]):
                out.append(x)
                continue
            todo.extend(cfg.pred[x])
        return out
    # the test node of the convergence criterion
    crit = cfg.node_of_stmt([n for n in ast.walk(fn) if isinstance(n, ast.If) and n.test is inner[0]][0])
    rmax = reaching('Rmax', crit)
    ok = len(rmax) == 1 and norm(cfg.nodes[rmax[0]].value) in ('np.abs(R).max()', 'abs(R).max()', 'np.max(np.abs(R))')
    chk.ob('R09.1', ok, NR, fname, 'Rmax = max |R|', got=[norm(cfg.nodes[i]) for i in rmax], sample='Rmax = np.abs(R).max()')
    rdef = reaching('R', rmax[0]) if rmax else []
    ok = len(rdef) == 1 and norm(cfg.nodes[rdef[0]].value) == 'fext-fint'
    chk.ob('R09.1', ok, NR, fname, 'R = fext - fint', got=[norm(cfg.nodes[i]) for i in rdef])
    if not ok:
        return
    nR = rdef[0]
    fint = reaching('fint', nR)
    ok = len(fint) == 1 and norm(cfg.nodes[fint[0]].value) in ('%s.calc_fint(c=c,inc=total,silent=silent)' % run_, '%s.calc_fint(c=c,inc=total)' % run_)
    chk.ob('R09.1', ok, NR, fname, 'fint evaluated at the reported state and load factor', got=[norm(cfg.nodes[i]) for i in fint],
           sample='fint = run.calc_fint(c=c, inc=total)')
    fext = reaching('fext', nR)
    ok = len(fext) == 1 and norm(cfg.nodes[fext[0]].value) in ('%s.calc_fext(inc=total,silent=silent)' % run_, '%s.calc_fext(inc=total)' % run_)
    chk.ob('R09.1', ok, NR, fname, 'fext evaluated at the reported load factor', got=[norm(cfg.nodes[i]) for i in fext],
           sample='fext = run.calc_fext(inc=total) is the only definition reaching R')
    # no redefinition of c / total / fext between their use in R and the appends
    if fint and fext:
        start = fint[0]
        # region: from the fint definition through the convergence assignment up to the appends
        reg1 = region(cfg, start, {nconv}) & {x for x in cfg.nodes if nconv in cfg.reachable(x)}
        reg2 = region(cfg, nconv, set(app_cs) | set(app_inc) | {start})
        bad = []
        for x in (reg1 | reg2):
            n = cfg.nodes[x]
            if n is None:
                continue
            w = set(stores(n)) & {'c', 'total', 'fext'}
            # only nodes that lie on a path to an append matter
            if w and any(a in cfg.reachable(x) for a in app_cs):
                if x in reg2 or (x in reg1):
                    bad.append((n.lineno, sorted(w)))
        # reg1 may contain the rest of the NR iteration (c updated, then loops back through fint): exclude nodes that must pass fint again
        bad = [(l, w) for (l, w) in bad if not _must_repass(cfg, l, start, nconv)]
        chk.ob('R09.1', not bad, NR, fname, 'reported (total, c) are the ones the residual was computed for',
               expected='no assignment to c, total or fext between the residual and the append', got=bad,
               sample='no redefinition of c/total/fext on paths residual -> append')
        # between fext definition and R: total unchanged
        reg3 = region(cfg, fext[0], {nR})
        bad3 = [cfg.nodes[x].lineno for x in reg3 if cfg.nodes[x] is not None and 'total' in stores(cfg.nodes[x]) and nR in cfg.reachable(x)
                and not cfg.must_pass(nR, {fext[0]}, start=x)]
        chk.ob('R09.1', not bad3, NR, fname, 'load factor unchanged between fext and the residual', got=bad3)
    for i in app_inc:
        chk.ob('R09.1', norm(cfg.nodes[i].value) == '%s.increments.append(total)' % run_, NR, fname, 'reported load factor', got=norm(cfg.nodes[i].value))
    # ---- R09.2 snapshots
    for i in app_cs:
        arg = cfg.nodes[i].value.args[0] if cfg.nodes[i].value.args else None
        chk.ob('R09.2', norm(arg) in COPIES, NR, fname, 'state appended as a copy', line=cfg.nodes[i].lineno,
               expected='run.cs.append(c.copy())', got=norm(cfg.nodes[i].value), sample='run.cs.append(c.copy())')
    restarts = [n for n in ast.walk(fn) if isinstance(n, ast.Assign) and '%s.cs[' % run_ in norm(n.value)]
    chk.ob('R09.2', bool(restarts) and all(norm(r.targets[0]) == 'c' and norm(r.value) in tuple(x.replace('c', '%s.cs[-1]' % run_, 1) if x.startswith('c') else x.replace('(c', '(%s.cs[-1]' % run_) for x in COPIES) for r in restarts), NR, fname, 'restart from a copy of the last state',
           got=[norm(r) for r in restarts], sample='c = run.cs[-1].copy()')
    inplace = []
    for n in ast.walk(fn):
        if isinstance(n, ast.AugAssign) and norm(n.target).split('[')[0] in ('c', 'c1', 'c2'):
            inplace.append((n.lineno, norm(n)[:40]))
        if isinstance(n, ast.Assign) and isinstance(n.targets[0], ast.Subscript) and norm(n.targets[0].value) in ('c',):
            inplace.append((n.lineno, norm(n)[:40]))
        if isinstance(n, ast.Call) and isinstance(n.func, ast.Attribute) and norm(n.func.value) == 'c' and n.func.attr in ('fill', 'sort', 'resize', 'itemset', 'put', '__iadd__'):
            inplace.append((n.lineno, norm(n)[:40]))
        if isinstance(n, ast.Call) and any(k.arg == 'out' for k in n.keywords):
            inplace.append((n.lineno, norm(n)[:40]))
    chk.ob('R09.2', not inplace, NR, fname, 'no in-place operation on the state vector', got=inplace,
           expected='c is only rebound (c = c + ...), never modified in place', sample='state vector never modified in place')
    # ---- R09.3 termination witnesses
    r09_3(chk, fn, cfg, run_)
    # ---- R09.4 cut-back / advance
    r09_4(chk, fn, run_)
    # ---- R09.5 dispatch
    am = module(ANALYSIS)
    f = am.method('Analysis', 'static')
    calls = [c for c in pyflow.calls_in(f) if callee_name(c) == '_solver_NR']
    ok = len(calls) == 1 and norm(calls[0].args[0]) == 'self'
    tests = [(norm(t), pol) for t, pol in pyrules.enclosing_tests(f, calls[0])] if calls else []
    ok = ok and ('NLgeom', True) in tests and ("self.NL_method=='NR'", True) in tests
    chk.ob('R09.5', ok, ANALYSIS, 'Analysis.static', 'non-linear dispatch', got=tests, sample='Analysis.static -> _solver_NR(self) under %s' % tests)
    init = [norm(s) for s in f.body if isinstance(s, ast.Assign)]
    chk.ob('R09.5', 'self.increments=[]' in init and 'self.cs=[]' in init, ANALYSIS, 'Analysis.static', 'results reset at the start of an analysis', got=init[:4])
    chk.explanation = ('boolean flag propagation and reaching definitions on the CFG of _solver_NR: appends only under converged, '
                       'convergence only under Rmax < absTOL with R = fext(total) - fint(c, total) for the appended (total, c); snapshots are copies; '
                       'syntactic termination witnesses of every loop; cut-back and advance rules')


def _must_repass(cfg, lineno, nfint, nconv):
    """an assignment after which every path to the convergence assignment passes the fint definition again"""
    xs = [i for i, n in cfg.nodes.items() if n is not None and getattr(n, 'lineno', None) == lineno]
    return all(cfg.must_pass(nconv, {nfint}, start=x) for x in xs) if xs else False


def literal(v):
    return v.value if isinstance(v, ast.Constant) and isinstance(v.value, (int, float)) else None


def r09_3(chk, fn, cfg, run_):
    fname = '_solver_NR'
    whiles = [n for n in ast.walk(fn) if isinstance(n, ast.While)]
    for k, w in enumerate(whiles):
        own = [n for n in ast.walk(w) if isinstance(n, ast.Break) and _innermost_loop(w, n) is w]
        conds = []
        for b in own:
            t = [(norm(t_), pol) for t_, pol in pyrules.enclosing_tests(w, b)]
            conds.append(t[-1] if t else None)
        augs = [norm(n) for n in w.body if isinstance(n, ast.AugAssign)] + [norm(n) for s in w.body if isinstance(s, ast.If) for n in s.body if isinstance(n, ast.AugAssign)]
        body_txt = [norm(s) for s in w.body]
        witness = None
        # unit-step counter compared in a break condition
        for cnt, limit_re in (('iteration', r'^iteration>%s\.maxNumIter$' % run_), ('iter_line_search', r'^iter_line_search==%s\.max_iter_line_search$' % run_)):
            if any(c and re.match(limit_re, c[0]) and c[1] for c in conds) and (cnt + '+=1') in [norm(n) for n in ast.walk(w) if isinstance(n, ast.AugAssign) and _innermost_loop(w, n) is w]:
                witness = 'counter %s' % cnt
        # geometric decrease of the increment with a lower bound
        if witness is None and any(c and c[0] == 'inc<%s.minInc' % run_ and c[1] for c in conds):
            fac = [n for n in ast.walk(w) if isinstance(n, ast.Assign) and norm(n.targets[0]) == 'factor']
            mul = [n for n in ast.walk(w) if isinstance(n, ast.AugAssign) and norm(n) == 'inc*=factor']
            vals = [literal(f.value) for f in fac if _under_not_converged(fn, f)]
            if mul and vals and all(v is not None and 0 < v < 1 for v in vals):
                witness = 'inc *= %s until inc < minInc' % vals
        # the outer loop: leaves on finished / minInc
        if witness is None and any(c and c[0] == 'finished' for c in conds) and any(c and c[0] == 'inc<%s.minInc' % run_ for c in conds):
            witness = 'outer loop: break on finished or inc < minInc'
        chk.ob('R09.3', witness is not None, NR, fname, 'exit witness of while loop #%d' % (k + 1), line=w.lineno,
               expected='a unit-step counter compared in a break, or a geometric decrease below a bound', got=conds,
               sample='loop at line %d: %s' % (w.lineno, witness))
        if witness and witness.startswith('counter'):
            cnt = witness.split()[1]
            init = [n for n in ast.walk(fn) if isinstance(n, ast.Assign) and norm(n) == cnt + '=0']
            chk.ob('R09.3', bool(init), NR, fname, 'counter %s initialised' % cnt, got=len(init))


def _innermost_loop(root, node):
    """innermost While/For of ``root`` containing ``node``"""
    best = None

    def rec(n, cur):
        nonlocal best
        for ch in ast.iter_child_nodes(n):
            c2 = ch if isinstance(ch, (ast.While, ast.For)) else cur
            if ch is node:
                best = cur
                return True
            if rec(ch, c2):
                return True
        return False
    rec(root, root if isinstance(root, (ast.While, ast.For)) else None)
    return best


def _under_not_converged(fn, node):
    tests = [(norm(t), pol) for t, pol in pyrules.enclosing_tests(fn, node)]
    return ('converged', False) in tests


def r09_4(chk, fn, run_):
    fname = '_solver_NR'
    ifc = [n for n in ast.walk(fn) if isinstance(n, ast.If) and norm(n.test) == 'converged']
    chk.ob('R09.4', len(ifc) == 1, NR, fname, 'one converged / not-converged split', got=len(ifc))
    if len(ifc) != 1:
        return
    good, bad = ifc[0].body, ifc[0].orelse
    btxt = [norm(n) for s in bad for n in ast.walk(s) if isinstance(n, (ast.Assign, ast.AugAssign))]
    ok = 'inc*=factor' in btxt and 'total-=inc' in btxt and 'total+=inc' in btxt and btxt.index('total-=inc') < btxt.index('inc*=factor') < btxt.index('total+=inc')
    chk.ob('R09.4', ok, NR, fname, 'cut-back: step back, shrink, step forward', expected='total -= inc; inc *= factor; total += inc', got=btxt,
           sample='cut-back: %s' % btxt)
    brk = [n for s in bad for n in ast.walk(s) if isinstance(n, ast.If) and norm(n.test) == 'inc<%s.minInc' % run_ and any(isinstance(b, ast.Break) for b in n.body)]
    # the outer loop is left when the increment fell below the minimum
    outer_brk = [n for n in bad if isinstance(n, ast.If) and norm(n.test) == 'inc<%s.minInc' % run_ and any(isinstance(b, ast.Break) for b in n.body)]
    chk.ob('R09.4', len(brk) >= 2 and len(outer_brk) == 1, NR, fname, 'stop when the increment is below the minimum', got=len(brk))
    gtxt = [norm(n) for s in good for n in ast.walk(s) if isinstance(n, (ast.Assign, ast.AugAssign))]
    caps = [n for s_ in good for n in ast.walk(s_) if isinstance(n, ast.Assign) and norm(n.targets[0]) == 'total' and pyrules.same_expr(n.value, 'min(1, total)')]
    adv = [n for s_ in good for n in ast.walk(s_) if isinstance(n, ast.AugAssign) and norm(n) == 'total+=inc']
    ok = len(caps) == 1 and len(adv) == 1 and adv[0].lineno < caps[0].lineno
    chk.ob('R09.4', ok, NR, fname, 'advance: total += inc, capped at 1', got=gtxt, sample='advance: total += inc; total = min(1, total)')
    fin = [n for s in good for n in ast.walk(s) if isinstance(n, ast.If) and norm(n.test) in ('abs(total-1)<0.001',)]
    chk.ob('R09.4', bool(fin) and any(norm(x) == 'finished=True' for x in fin[0].body), NR, fname, 'finished when the full load is reached', got=[norm(f.test) for f in fin])
    incs = [n for s in good for n in ast.walk(s) if isinstance(n, ast.Assign) and norm(n.targets[0]) == 'inc_new']
    ok = bool(incs) and all(isinstance(i.value, ast.Call) and callee_name(i.value) == 'min' and any(pyrules.same_expr(a, 'factor*inc') for a in i.value.args)
                            and any(pyrules.same_expr(a, '%s.maxInc' % run_) for a in i.value.args) for i in incs)
    facs = [literal(n.value) for s in good for n in ast.walk(s) if isinstance(n, ast.Assign) and norm(n.targets[0]) == 'factor']
    chk.ob('R09.4', ok and facs and all(f is not None and f > 1 for f in facs), NR, fname, 'increment regrowth bounded by maxInc and the remaining load',
           got=[norm(i.value) for i in incs], sample='inc = min(factor*inc, maxInc, remaining)')
    # the increment never exceeds the remaining load, so that `inc` is the step actually taken even next to total = 1
    # (the cut-back bookkeeping total -= inc relies on it)
    from .poly import P
    for i in incs:
        capped = False
        if isinstance(i.value, ast.Call) and callee_name(i.value) == 'min':
            for a in i.value.args:
                pa = pyrules.expr_poly(a)
                if pa is None:
                    continue
                lam = pa.t.get((), 0)
                if lam and 0 < lam <= 1 and set(pa.t) == {(), (('total', 1),)} and pa.t[(('total', 1),)] == -lam:
                    capped = True
        chk.ob('R09.4', capped, NR, fname, 'next increment capped by the remaining load', line=i.lineno,
               expected='one argument of the min() is lambda*(1 - total) with 0 < lambda <= 1', got=norm(i.value),
               detail='' if capped else 'with total capped at 1 but inc not, a failed step at full load is cut back from the wrong place: load factors can be reported out of order',
               sample='inc_new = %s' % norm(i.value))
    # line search: giving up at the iteration limit falls back to the full Newton step
    for w in [n for n in ast.walk(fn) if isinstance(n, ast.While)]:
        if not any(isinstance(x, ast.Assign) and norm(x.targets[0]) == 'eta2' for x in ast.walk(w)):
            continue
        for n in ast.walk(w):
            if isinstance(n, ast.If) and 'max_iter_line_search' in norm(n.test) and any(isinstance(b, ast.Break) for b in n.body):
                pos = [k for k, b in enumerate(n.body) if isinstance(b, ast.Break)][0]
                reset = [b for b in n.body[:pos] if isinstance(b, ast.Assign) and norm(b.targets[0]) == 'eta2' and literal(b.value) == 1]
                chk.ob('R09.4', bool(reset), NR, fname, 'line search gives up with the full Newton step', line=n.lineno,
                       expected='eta2 = 1. before leaving the loop at the iteration limit', got=[norm(b)[:40] for b in n.body],
                       detail='' if reset else 'the last trial step length (possibly nan when the residual along delta_c vanishes) is applied to the state',
                       sample='line search: eta2 = 1. at the iteration limit')
