"""C06 - frequency solver: necessary structural clauses on the sibling drivers."""
import ast
import re

from . import eigk, pyflow, pyrules
from .eigk import Driver, assume, path_events, transform_of
from .pyrules import module, norm
from .pyflow import callee_name, dotted

LEVEL = 'other'
SITES = [('compmech/analysis/freq.py', None, 'freq'), ('compmech/panel/_panel.py', 'Panel', 'freq')]
TABLE = {('K', 'M'): 'sqrt:id', ('-M', 'K'): 'sqrt:neginv', ('M', 'K'): 'sqrt:inv', ('-K', 'M'): 'sqrt:neg'}


def roles_for(fn, cls):
    params = [a.arg for a in fn.args.args]

    def roles(txt):
        if cls is None:
            if txt == params[0]:
                return 'K'
            if txt == params[1]:
                return 'M'
            return None
        if txt == 'self.kM':
            return 'M'
        if re.search(r'self\.k0\b', txt):
            return 'K'
        return None
    return roles


def reduction_event(x, n):
    """('reduce', idx) for X = X[:, idx][idx, :] or remove_null_cols; ('expand', idx) for Y[idx, :] = Z"""
    if isinstance(n, ast.Assign):
        t = n.targets[0]
        v = n.value
        if isinstance(t, ast.Tuple) and isinstance(v, ast.Call) and callee_name(v) == 'remove_null_cols':
            return ('reduce', norm(t.elts[-1]))
        if isinstance(t, ast.Name):
            m = re.match(r'^(\w+)\[:,(\w+)\]\[(\w+),:\]$', norm(v))
            if m and m.group(1) == t.id and m.group(2) == m.group(3) and t.id in ('M',):
                return ('reduce', m.group(2))
        if isinstance(t, ast.Subscript):
            m = re.match(r'^(\w+)\[(\w+),:\]$', norm(t))
            if m and 'eigvecs' in m.group(1):
                return ('expand', m.group(2))
    return None


def run(chk):
    chk.level = LEVEL
    chk.trusted = ['python3 ast', 'statement CFG', 'documented semantics of scipy eigs/eig: A v = w M v']
    chk.assumptions = ['positivity, ordering and accuracy of the frequencies are not decided', 'the undamped problem only (damping=False paths of Panel.freq)']
    pyrules.check_remove_null_cols(chk, 'R06.2')
    nsites = 0
    summary = {}
    for rel, cls, meth in SITES:
        m = module(rel)
        fn = m.method(cls, meth) if cls else m.function(meth)
        fname = '%s.%s' % (cls, meth) if cls else meth
        drv = Driver(rel, fn, fname, roles_for(fn, cls))
        cfg = drv.cfg
        drv.cut = assume(cfg, {'damping': False})
        chk.need(len(drv.sites) >= 2, '%s: expected a sparse and a dense solver call' % fname)
        for k, site in enumerate(sorted(drv.sites, key=lambda s: s['line'])):
            nsites += 1
            sparse = site['solver'] in ('eigs', 'eigsh')
            tag = '%s path (%s)' % ('sparse' if sparse else 'dense', site['solver'])
            ra = drv.role_of(site['A'], site['node'])
            rm = drv.role_of(site['M'], site['node'])
            want = TABLE.get((ra, rm))
            chk.ob('R06.1', want is not None, rel, fname, tag + ' pencil roles', line=site['line'],
                   expected='(A=K, M=M) or (a=-M, b=K)', got='A:%s M:%s' % (ra, rm), sample='%s %s: A=%s M=%s' % (fname, tag, ra, rm))
            if sparse:
                kw = {k.arg: k.value for k in site['call'].keywords}
                sig = kw.get('sigma')
                sval = None
                try:
                    sval = float(ast.literal_eval(sig)) if sig is not None else None
                except Exception:
                    sval = None
                wh = norm(kw.get('which')) if kw.get('which') is not None else None
                ok = sval is not None and sval < 0 and wh == "'LM'"
                chk.ob('R06.1', ok, rel, fname, tag + ' shift-invert selects the lowest frequencies', line=site['line'],
                       expected="sigma a negative literal (below the spectrum of a positive semi-definite pencil) with which='LM'", got='sigma=%s which=%s' % (norm(sig), wh),
                       detail='' if ok else 'with sigma >= 0 the solver returns the eigenvalues nearest sigma, not the smallest ones',
                       sample='%s %s: sigma=%s which=%s' % (fname, tag, norm(sig), wh))
            else:
                masks = [n for n in ast.walk(fn) if isinstance(n, ast.Assign) and norm(n.targets[0]) == 'check']
                okm = len(masks) == 1 and norm(masks[0].value) in ('col_sum!=0', 'np.abs(col_sum)>0', 'abs(col_sum)>0', 'col_sum!=0.0')
                cs = [norm(n.value) for n in ast.walk(fn) if isinstance(n, ast.Assign) and norm(n.targets[0]) == 'col_sum']
                chk.ob('R06.2', okm and cs == ['M.sum(axis=0)'], rel, fname, tag + ' null-amplitude mask is an exact zero test', line=masks[0].lineno if masks else 0,
                       expected='check = (column sums of M) != 0', got=[norm(m.value) for m in masks] + cs,
                       detail='' if okm else 'a threshold removes amplitudes that do carry (small) mass',
                       sample='%s %s: mask %s' % (fname, tag, [norm(m.value) for m in masks]))
            base = {'sparse_solver': sparse, 'damping': False}
            for rd in (False, True):
                for srt in (False, True):
                    env = dict(base, reduced_dof=rd, sort=srt)
                    cut = assume(cfg, env)
                    label = '%s reduced_dof=%s sort=%s' % (tag, rd, srt)
                    # R06.1 transform on every path
                    seqs = path_events(cfg, site['node'], lambda x, n: transform_of(n), cut)
                    if want is not None:
                        chk.ob('R06.1', seqs == {(want,)}, rel, fname, label + ' transform', line=site['line'],
                               expected='omega = %s applied exactly once' % want, got=sorted(seqs),
                               sample='%s %s: %s' % (fname, label, sorted(seqs)))
                    # R06.2 LIFO of reductions: everything applied to (K, M) before the call is undone in reverse order after it
                    before = path_events(cfg, cfg.ENTRY, lambda x, n: (reduction_event(x, n) or (None,))[1] if (reduction_event(x, n) or ('',))[0] == 'reduce' else None,
                                         cut, stop={site['node']})
                    after = path_events(cfg, site['node'], lambda x, n: (reduction_event(x, n) or (None,))[1] if (reduction_event(x, n) or ('',))[0] == 'expand' else None, cut)
                    ok = len(before) == 1 and len(after) == 1 and tuple(reversed(next(iter(before)))) == next(iter(after))
                    chk.ob('R06.2', ok, rel, fname, label + ' reductions undone in reverse order', line=site['line'],
                           expected='expansions == reversed(reductions)', got='reductions %s, expansions %s' % (sorted(before), sorted(after)),
                           detail='' if ok else 'the amplitudes removed from (K, M) in the order %s are re-inserted into the eigenvectors in the order %s: the first expansion receives vectors of the wrong length' % (sorted(before), sorted(after)),
                           sample='%s %s: reduce %s / expand %s' % (fname, label, sorted(before), sorted(after)))
                    if srt:
                        r06_3(chk, drv, site, cut, label)
            r06_4(chk, drv, site, tag)
            summary[(fname, tag)] = (ra, rm, want)
    chk.floor('R06 solver call sites', nsites, 4)
    sp = {v for (f, t), v in summary.items() if t.startswith('sparse')}
    de = {v for (f, t), v in summary.items() if t.startswith('dense')}
    chk.ob('R06.5', len(sp) == 1 and len(de) == 1, 'compmech/analysis/freq.py', 'freq / Panel.freq', 'sibling agreement',
           expected='the two drivers use the same pencil and transform on each path', got='sparse %s dense %s' % (sorted(map(str, sp)), sorted(map(str, de))),
           sample='siblings: sparse %s dense %s' % (sorted(map(str, sp)), sorted(map(str, de))))
    r06_6(chk)
    r06_7(chk)
    chk.explanation = ('pencil roles by reaching definitions, eigenvalue transform on every CFG path under each flag combination, '
                       'LIFO discipline of reductions/expansions, one permutation and one mask for values and vectors, column agreement')


def r06_3(chk, drv, site, cut, label):
    cfg = drv.cfg

    def cls(x, n):
        if isinstance(n, ast.Assign) and isinstance(n.targets[0], ast.Name):
            m = re.match(r'^eigvals\[(\w+)\]$', norm(n.value))
            if m and n.targets[0].id == 'eigvals':
                return ('vals', m.group(1))
            m = re.match(r'^eigvecs\[:,(\w+)\]$', norm(n.value))
            if m and n.targets[0].id == 'eigvecs':
                return ('vecs', m.group(1))
        return None
    seqs = path_events(cfg, site['node'], cls, cut)
    ok = len(seqs) == 1
    got = sorted(seqs)
    if ok:
        seq = next(iter(seqs))
        vals = [i for k, i in seq if k == 'vals']
        vecs = [i for k, i in seq if k == 'vecs']
        # every index array applied to the values is applied to the vectors, in the same order (one fancy index that sorts and
        # filters at once is as good as a permutation followed by a mask); at least one of them comes out of a sort
        from .symval import Flow
        fl = getattr(drv, '_flow', None)
        if fl is None:
            fl = Flow(drv.fn, limit=4)
            fl.run()
            drv._flow = fl
        sorts = False
        for n in ast.walk(drv.fn):
            if isinstance(n, ast.Assign) and isinstance(n.targets[0], ast.Name) and n.targets[0].id == 'eigvals':
                m = re.match(r'^eigvals\[(\w+)\]$', norm(n.value))
                if m:
                    vs = fl.snap.get(id(n), {}).get(m.group(1), set())
                    if any('lexsort(' in v or 'argsort(' in v for v in vs):
                        sorts = True
        ok = vals == vecs and len(vals) >= 1 and sorts
    chk.ob('R06.3', ok, drv.rel, drv.fname, label + ' one permutation and one mask for values and vectors', line=site['line'],
           expected='eigvals[i] and eigvecs[:, i] with the same index arrays, in the same order', got=got,
           sample='%s %s: %s' % (drv.fname, label, got))


def r06_4(chk, drv, site, tag):
    """column agreement of the eigenvector buffer"""
    cfg = drv.cfg
    fn = drv.fn
    after = cfg.reachable(site['node'])
    alloc = sorted([cfg.nodes[i] for i in after if isinstance(cfg.nodes[i], ast.Assign) and norm(cfg.nodes[i].targets[0]) == 'eigvecs'
                    and isinstance(cfg.nodes[i].value, ast.Call) and dotted(cfg.nodes[i].value.func) in ('np.zeros', 'zeros') and cfg.nodes[i].lineno > site['line']],
                   key=lambda s: s.lineno)[:1]
    scat = sorted([cfg.nodes[i] for i in after if isinstance(cfg.nodes[i], ast.Assign) and isinstance(cfg.nodes[i].targets[0], ast.Subscript)
                   and norm(cfg.nodes[i].targets[0]).startswith('eigvecs[') and cfg.nodes[i].lineno > site['line']], key=lambda s: s.lineno)[:1]
    if not (alloc and scat):
        chk.ob('R06.4', False, drv.rel, drv.fname, tag + ' column agreement', line=site['line'], got='no buffer / scatter found')
        return
    shape = alloc[0].value.args[0]
    ncols = norm(shape.elts[1]) if isinstance(shape, ast.Tuple) and len(shape.elts) == 2 else None
    src = norm(scat[0].value)
    kexp = norm(site['k']) if site['k'] is not None else None
    kdef = pyrules.resolve(fn, site['k']) if site['k'] is not None else None
    if site['solver'] in ('eigs', 'eigsh'):
        ok = ncols in (src + '.shape[1]', kexp, kdef)
    else:
        # dense: all columns of the reduced problem come back; buffer sized from the reduced matrix or the source
        ok = ncols in (src + '.shape[1]', 'K.shape[0]', 'M.shape[0]')
    chk.ob('R06.4', ok, drv.rel, drv.fname, tag + ' column agreement', line=site['line'],
           expected='buffer columns == columns of the scattered array for every matrix size', got='buffer %s columns, source %s, k=%s' % (ncols, src, kdef),
           detail='' if ok else 'the solver returns k = %s vectors but the buffer always has %s columns: ValueError when they differ (fewer than %s+2 amplitudes)' % (kdef, ncols, ncols),
           sample='%s %s: buffer %s, source %s' % (drv.fname, tag, ncols, src))


def r06_6(chk):
    """ascending order: the primary sort key of the undamped frequencies is the real part itself or its rounding to
    0.1 rad/s or finer (the tolerance the drivers document by rounding to one decimal)"""
    n = 0
    for rel, cls, meth in SITES:
        m = module(rel)
        fn = m.method(cls, meth) if cls else m.function(meth)
        fname = '%s.%s' % (cls, meth) if cls else meth
        for c in pyflow.calls_in(fn):
            if dotted(c.func) != 'np.lexsort' or not c.args or not isinstance(c.args[0], ast.Tuple):
                continue
            tests = [(norm(t), pol) for t, pol in pyrules.enclosing_tests(fn, c)]
            if ('damping', True) in tests:
                continue                       # complex (damped) spectra belong to C19
            key = c.args[0].elts[-1]
            ok, got = False, norm(key)
            if isinstance(key, ast.Call) and dotted(key.func) in ('np.round', 'np.around') and key.args:
                dec = key.args[1] if len(key.args) > 1 else next((k.value for k in key.keywords if k.arg == 'decimals'), None)
                if dec is None:
                    ok, got = False, got + ' (decimals=0)'
                elif isinstance(dec, ast.Constant) and isinstance(dec.value, int):
                    ok = dec.value >= 1 and norm(key.args[0]).endswith('.real')
            elif got.endswith('.real') or got in ('eigvals', 'omegan'):
                ok = True
            n += 1
            chk.ob('R06.6', ok, rel, fname, 'primary sort key resolves 0.1 rad/s or finer', line=c.lineno,
                   expected='eigvals.real, or np.round(eigvals.real, d) with d >= 1', got=got,
                   detail='' if ok else 'frequencies closer than the rounding step keep the order the solver delivered them in: the result can descend by up to that step',
                   sample='%s: sorted by %s' % (fname, got))
    chk.floor('R06.6 sort sites', n, 2)


def r06_7(chk):
    pyrules.check_unconditional_recompute(chk, 'R06.7', 'compmech/panel/_panel.py', 'Panel', 'freq', 4)
