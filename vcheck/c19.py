"""C19 - piston-theory aerodynamic matrices."""
import ast

from . import spec, panelk, pyrules, pyflow
from .poly import P, Rat, from_ast, Unsupported, NonMonomialDivision
from .spec import S, C
from .pyrules import module, norm, attr_calls, check_binding, kernel_sig, local_defs, resolve, PANEL
from .pyflow import Sig, bind, dotted
from .report import AnalysisError

LEVEL = 'proof'
R = {'hess': 'R19.1', 'alias': 'R19.1', 'frame': 'R19.1', 'index': 'R19.1'}
BAY = 'compmech/stiffpanelbay/stiffpanelbay.py'
AERO_MODELS = ('plate', 'plate_w', 'cpanel')


def by_parts(direction):
    """integration by parts on the flow direction, valid when w is restrained on
    the flow edges: I[(A,w,1),(B,w,0)] -> -I[(A,w,0),(B,w,1)]"""
    def fn(p, k):
        atoms = k.w.atoms
        mp = {}
        for a in p.atoms():
            info = atoms.reg.get(a)
            if info and info[0] == 'I' and info[1] == direction:
                f1, f2 = info[3]
                fa, fb = (f1, f2) if f1.tok == 'A' else (f2, f1)
                if fa.tok == 'A' and fb.tok == 'B' and fa.d == 1 and fb.d == 0:
                    from .kernel import Factor
                    new = atoms.integral(direction, info[2], Factor('A', fa.tag, fa.field, 0), Factor('B', fb.tag, fb.field, 1), info[4])
                    mp[a] = -S(new)
        return p.subs(mp)
    return fn


def aero_spec(model, kind):
    def fn(frame, k):
        g = frame.geo()
        b = spec.Builder()
        pr = k.w.params
        dof = spec.DOF1 if model == 'plate_w' else spec.DOF3
        jac = g.a * g.b / C(4)
        W = [(C(1), 'w', 0, 0)]
        if kind == 'x':
            beta, gamma = S(pr[0]), S(pr[1])
            rows = [W, [(g.dx, 'w', 1, 0)]]

            def m(p, q):
                # the curvature term exists for curved panels only
                tab = {(0, 1): beta}
                if model == 'cpanel':
                    tab[(0, 0)] = -gamma
                return tab.get((p, q), P())
        elif kind == 'y':
            beta = S(pr[0])
            rows = [W, [(g.dy, 'w', 0, 1)]]

            def m(p, q):
                return {(0, 1): beta}.get((p, q), P())
        else:
            mu = S(pr[0])
            rows = [W]

            def m(p, q):
                return -mu
        return b.hessian(rows, m, jac, dof)
    return fn


def parity(v, k, direction):
    """+1 even / -1 odd / 0 neither, under the role swap modulo integration by parts"""
    bp = by_parts(direction)
    a = bp(v, k)
    sw = bp(panelk.swap_roles(v, k.w.atoms), k)
    if a.close(sw):
        return 1
    if a.close(-sw):
        return -1
    return 0


def run(chk):
    chk.level = LEVEL
    chk.trusted = ['python3 ast', 'E1 lowering', 'Fraction polynomial arithmetic', 'C10 integral tables',
                   "precondition of the property: w restrained on the flow edges (integration by parts has no boundary term)"]
    nums = pyrules.modeldb_nums(chk)
    n = 0
    mirrors = mirror_of(chk)
    for model in AERO_MODELS:
        rel = panelk.MODELS[model]
        for fname, kind, direction in (('fkAx', 'x', 'x'), ('fkAy', 'y', 'y'), ('fcA', 'c', None)):
            tr = by_parts(direction) if direction else None
            k, got, fr, bad = panelk.check_matrix_kernel(chk, R, model, rel, fname, False, nums[model], aero_spec(model, kind),
                                                          'piston-theory bilinear form', swap=False, transform=tr)
            n += len(got)
            wdof = 0 if model == 'plate_w' else 2
            chk.ob('R19.1', set(got) == {(wdof, wdof)}, rel, fname, 'only the (w,w) entry', got=sorted(got))
            pr = k.w.params
            ncoef = {'x': 2, 'y': 1, 'c': 1}[kind]
            for pq, v in got.items():
                degs = v.degree_in(lambda a: a in pr[:ncoef])
                chk.ob('R19.1', degs == {1}, rel, fname, 'linear in the coefficients', got=sorted(degs))
                # R19.2 mirror rule, term by term
                want = mirrors.get(fname)
                for cname in pr[:ncoef]:
                    part = v.part(lambda mono: any(s == cname for s, e in mono))
                    if not part.t:
                        continue
                    par = parity(part, k, direction or 'x')
                    ok = want is not None and par == want
                    chk.ob('R19.2', ok, rel, fname, 'mirror parity of the %s term' % cname,
                           line=k.blocks[pq][0].line,
                           expected='%s under the row/column swap, because the Python side mirrors the upper triangle with sign %s' % (
                               {1: 'even', -1: 'odd'}.get(want, '?'), want),
                           got={1: 'even', -1: 'odd', 0: 'neither'}[par],
                           detail='the %s term of %s.%s is %s but is mirrored with sign %s' % (cname, model, fname, {1: 'symmetric', -1: 'skew-symmetric', 0: 'of no parity'}[par], want),
                           sample='%s.%s %s-term parity %+d, mirror %+d' % (model, fname, cname, par, want or 0))
    chk.floor('R19.1 aerodynamic emits', n, 9)
    # fkAy is fkAx under the axis exchange (beta part)
    axis_exchange(chk)
    pyrules.check_mirror(chk, 'R19.2', 'make_skew_symmetric', -1)
    r19_python(chk)
    chk.explanation = ('fkAx/fkAy/fcA compared with the piston-theory bilinear forms modulo integration by parts; '
                       'mirror parity of each term compared with the mirror function applied in Panel.calc_kA/calc_cA; '
                       'Mach-number formulas compared as rational identities; call binding of the bay/panel aero methods')


def mirror_of(chk):
    """which mirror sign each kernel's matrix receives in Panel.calc_kA / calc_cA"""
    m = module(PANEL)
    out = {}
    fn = m.method('Panel', 'calc_kA')
    stores = [n for n in ast.walk(fn) if isinstance(n, ast.Assign) and norm(n.targets[0]) == 'kA' and isinstance(n.value, ast.Call)]
    sign = None
    for st in stores:
        names = {pyflow.callee_name(c) for c in pyflow.calls_in(st.value)}
        if 'make_skew_symmetric' in names:
            sign = -1 if sign in (None, -1) else 0
        elif 'make_symmetric' in names or 'finalize_symmetric_matrix' in names:
            sign = 1 if sign in (None, 1) else 0
    chk.need(sign is not None, 'Panel.calc_kA no longer mirrors kA')
    out['fkAx'] = out['fkAy'] = sign
    fn = m.method('Panel', 'calc_cA')
    sign = None
    for st in [n for n in ast.walk(fn) if isinstance(n, ast.Assign) and norm(n.targets[0]) == 'cA' and isinstance(n.value, ast.Call)]:
        names = {pyflow.callee_name(c) for c in pyflow.calls_in(st.value)}
        if 'make_skew_symmetric' in names:
            sign = -1
        elif 'make_symmetric' in names or 'finalize_symmetric_matrix' in names:
            sign = 1
    chk.need(sign is not None, 'Panel.calc_cA no longer mirrors cA')
    out['fcA'] = sign
    return out


def axis_exchange(chk):
    """fkAy == fkAx[gamma-free part] under a<->b, x-atoms<->y-atoms"""
    from .kernel import Factor
    for model in AERO_MODELS:
        rel = panelk.MODELS[model]
        kx = panelk.load_kernel(chk, rel, 'fkAx')
        ky = panelk.load_kernel(chk, rel, 'fkAy')
        for pq in kx.blocks:
            vx = kx.block(pq)
            beta = kx.w.params[0]
            vx = vx.part(lambda mono: any(s == beta for s, e in mono))
            vy = ky.block(pq)

            def ex(a, atoms_from=kx.w.atoms, atoms_to=ky.w.atoms):
                info = atoms_from.reg.get(a)
                if info and info[0] == 'I':
                    return atoms_to.integral('y' if info[1] == 'x' else 'x', info[2], info[3][0], info[3][1], info[4])
                return {'a': 'b', 'b': 'a'}.get(a, a)
            vxe = vx.rename(ex)
            vxe = vxe.rename(lambda a: ky.w.params[0] if a == beta else a)
            chk.ob('R19.1', vxe.close(vy), rel, 'fkAy', 'axis exchange of fkAx (%d,%d)' % pq,
                   expected=repr(vxe), got=repr(vy), sample='fkAy == fkAx under (a<->b, x<->y)')


# --------------------------------------------------------------------------


def eval_branch(fn, body, selfmap=True):
    """sequential evaluation of simple assignments as Rat; self.X -> atom X"""
    env = {}

    def leaf(n):
        if isinstance(n, ast.Attribute) and isinstance(n.value, ast.Name) and n.value.id == 'self':
            return P.sym(n.attr)
        return None
    out = {}

    def walk(stmts):
        for st in stmts:
            if isinstance(st, ast.Assign) and len(st.targets) == 1 and isinstance(st.targets[0], ast.Name):
                try:
                    env[st.targets[0].id] = from_ast(st.value, env, leaf, ring=Rat)
                    out.setdefault(st.targets[0].id, []).append((env[st.targets[0].id], st.lineno, st))
                except (Unsupported, NonMonomialDivision, ZeroDivisionError):
                    pass
            elif isinstance(st, ast.If):
                walk(st.body)
                walk(st.orelse)
    walk(body)
    return out


def mach_formulas(chk, rel, cls, meth):
    m = module(rel)
    fn = m.method(cls, meth)
    branch = None
    for n in ast.walk(fn):
        if isinstance(n, ast.If) and norm(n.test) == 'self.betaisNone':
            branch = n
    chk.need(branch is not None, '%s.%s: the "beta is None" (Mach) branch vanished' % (cls, meth))
    vals = eval_branch(fn, branch.body)
    from .poly import nfs
    M = S('Mach')
    SQ = 'sqrt(%s)' % nfs(M * M - C(1))
    Sq = S(SQ)

    def reduce(p):
        # S^2 -> Mach^2 - 1
        for _ in range(6):
            hit = False
            t = {}
            q = P()
            for mono, c in p.t.items():
                d = dict(mono)
                e = d.get(SQ, 0)
                if e >= 2:
                    hit = True
                    d[SQ] = e - 2
                    if not d[SQ]:
                        del d[SQ]
                    q = q + P({tuple(sorted(d.items())): c}) * (M * M - C(1))
                else:
                    q = q + P({mono: c})
            p = q
            if not hit:
                break
        return p
    beta = Rat(S('rho_air') * S('V') ** 2, Sq)
    rsym = S('r')
    specs = {'beta': [beta], 'gamma': [beta / (Rat(C(2) * rsym * Sq)), Rat(C(0))],
             'aeromu': [beta * Rat(M * M - C(2), M * S('speed_sound') * (M * M - C(1)))]}
    fname = '%s.%s' % (cls, meth)
    for name, alts in specs.items():
        got = vals.get(name, [])
        chk.need(got, '%s: Mach-route assignment of %s vanished' % (fname, name))
        for g, line, st in got:
            ok = any(g.equals(a, reduce=reduce) for a in alts)
            chk.ob('R19.3', ok, rel, fname, 'Mach formula ' + name, line=line,
                   expected={'beta': 'rho*V^2/sqrt(M^2-1)', 'gamma': 'beta/(2 r sqrt(M^2-1)) (0 for flat panels)',
                             'aeromu': 'beta (M^2-2)/(M a_inf (M^2-1))'}[name], got=norm(st.value),
                   sample='%s: %s = %s' % (fname, name, norm(st.value)))


def r19_python(chk):
    m = module(PANEL)
    fn = m.method('Panel', 'calc_kA')
    defs = local_defs(fn)
    mach_formulas(chk, PANEL, 'Panel', 'calc_kA')
    mach_formulas(chk, BAY, 'StiffPanelBay', 'calc_kA')
    mach_formulas(chk, BAY, 'StiffPanelBay', 'calc_cA')
    # dispatch and binding
    for kname, exp, flow in (('fkAx', {'beta': 'beta', 'gamma': 'gamma', 'panel': 'self', 'size': 'size', 'row0': 'row0', 'col0': 'col0'}, "'x'"),
                             ('fkAy', {'beta': 'beta', 'panel': 'self', 'size': 'size', 'row0': 'row0', 'col0': 'col0'}, "'y'")):
        calls = attr_calls(fn, kname)
        chk.need(len(calls) == 1, 'Panel.calc_kA: expected one %s call' % kname)
        for model in AERO_MODELS:
            mp, probs = bind(calls[0], kernel_sig(panelk.MODELS[model], kname))
            got = pyrules.bound_texts(fn, mp)
            chk.ob('R19.4', not probs and got == exp, PANEL, 'Panel.calc_kA', '%s call vs %s signature' % (kname, model),
                   line=calls[0].lineno, expected=exp, got=got, detail='; '.join(probs))
        tests = [(norm(t), pol) for t, pol in pyrules.enclosing_tests(fn, calls[0])]
        ok = ("self.flow.lower()==%s" % flow, True) in tests
        chk.ob('R19.4', ok, PANEL, 'Panel.calc_kA', '%s flow branch' % kname, line=calls[0].lineno, expected='flow == %s' % flow, got=tests)
    # R19.5 calc_cA: fcA(aeromu, self, size...) * 1j once, symmetrised
    fc = m.method('Panel', 'calc_cA')
    calls = attr_calls(fc, 'fcA')
    chk.need(len(calls) == 1, 'Panel.calc_cA: expected one fcA call')
    for model in AERO_MODELS:
        check_binding(chk, 'R19.5', PANEL, fc, 'Panel.calc_cA', calls[0], kernel_sig(panelk.MODELS[model], 'fcA'),
                      {'aeromu': 'aeromu', 'panel': 'self', 'size': {'self.size', 'size', 'self.get_size()'}, 'row0': {'0', 'row0'}, 'col0': {'0', 'col0'}},
                      'fcA call vs %s signature' % model)
    # the value stored in self.cA, with temporaries substituted (vcheck/symval.py) and the symmetrisation wrappers removed:
    # exactly the kernel result times the imaginary unit
    from .symval import Flow
    import re as _re
    fl = Flow(fc)
    fl.run()
    vals = set()
    for tgt, vs, node in fl.stores:
        if tgt.replace(' ', '') == 'self.cA':
            vals |= vs
    texts = set()
    for v in vals:
        t = v.replace(' ', '')
        for _ in range(4):
            t2 = _re.sub(r'^finalize_symmetric_matrix\((.*)\)$', r'\1', t)
            t2 = _re.sub(r'^csr_matrix\(make_symmetric\((.*)\)\)$', r'\1', t2)
            t2 = _re.sub(r'^\((.*)\)$', lambda mm: mm.group(1) if mm.group(1).count('(') == mm.group(1).count(')') and not _re.search(r'^[^()]*\)', mm.group(1)) else mm.group(0), t2)
            if t2 == t:
                break
            t = t2
        texts.add(t)
    unit = r'(\(0\+1j\)|1j)'
    call = r'[\w\.\[\]\'\"]*fcA\([^()]*(\([^()]*\)[^()]*)*\)'
    ok = bool(texts) and all(_re.match(r'^\(?%s\)?\*%s$' % (call, unit), t) or _re.match(r'^%s\*\(?%s\)?$' % (unit, call), t)
                            or _re.match(r'^\(\(?%s\)?\)Mult\(%s\)$' % (call, unit), t) for t in texts)
    chk.ob('R19.5', ok, PANEL, 'Panel.calc_cA', 'imaginary unit applied once', expected='self.cA = symmetrised(fcA(...) * 1j): the kernel result times the imaginary unit, once',
           got=sorted(texts)[:3])
    pyrules.check_finalize_path(chk, 'R19.5', PANEL, 'Panel', 'calc_cA', 'cA')
    # R19.4 every call of calc_cA / calc_kA in the package binds against the signature
    for rel, cls in ((PANEL, 'Panel'), (BAY, 'StiffPanelBay')):
        mod = module(rel)
        for mname, meth in mod.classes[cls].items():
            for tgt in ('calc_cA', 'calc_kA'):
                for ncall, call in enumerate(sorted(attr_calls(meth, tgt), key=lambda c: c.lineno)):
                    recv = dotted(call.func.value)
                    # receiver: self -> own class; p (= self.panels[0]) -> Panel
                    rcls = cls if recv == 'self' else 'Panel'
                    rmod = module(PANEL if rcls == 'Panel' else BAY)
                    sig = Sig(rmod.method(rcls, tgt), drop_self=True)
                    mp, probs = bind(call, sig)
                    chk.ob('R19.4', not probs, rel, '%s.%s' % (cls, mname), 'call %s.%s #%d' % (rcls, tgt, ncall + 1), line=call.lineno,
                           expected='call binds against %s.%s%s' % (rcls, tgt, tuple(sig.names)), got=norm(call),
                           detail='; '.join(probs), sample='%s.%s -> %s.%s binds' % (cls, mname, rcls, tgt))
    # coefficient forwarding: coefficients computed by the bay must reach the panel
    mod = module(BAY)
    for meth in ('calc_kA', 'calc_cA'):
        f = mod.method('StiffPanelBay', meth)
        loads = {n.id for n in ast.walk(f) if isinstance(n, ast.Name) and isinstance(n.ctx, ast.Load)}
        stores = {}
        for n in ast.walk(f):
            if isinstance(n, ast.Assign) and isinstance(n.targets[0], ast.Name) and n.targets[0].id in ('beta', 'gamma', 'aeromu'):
                stores.setdefault(n.targets[0].id, n.lineno)
        # a coefficient is forwarded if it is read by something other than the definition of another coefficient
        used_outside = set()
        for n in ast.walk(f):
            if isinstance(n, ast.Call):
                for a in list(n.args) + [k.value for k in n.keywords]:
                    for x in ast.walk(a):
                        if isinstance(x, ast.Name) and x.id in stores:
                            used_outside.add(x.id)
            if isinstance(n, ast.Assign) and isinstance(n.targets[0], ast.Attribute):
                for x in ast.walk(n.value):
                    if isinstance(x, ast.Name) and x.id in stores:
                        used_outside.add(x.id)
        need = {'calc_kA': ('beta', 'gamma'), 'calc_cA': ('aeromu',)}[meth]
        for cname in need:
            chk.ob('R19.4', cname in used_outside or cname not in stores, BAY, 'StiffPanelBay.' + meth, 'forwarding of ' + cname,
                   line=stores.get(cname, f.lineno), expected='the coefficient computed by the bay reaches the panel/kernel call',
                   got='assigned at line %s, never passed on' % stores.get(cname),
                   detail='StiffPanelBay.%s computes %s (also from user-supplied beta/gamma/aeromu) but the panel recomputes its own from Mach' % (meth, cname))
