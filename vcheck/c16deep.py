"""R16.4 (cone kernel at zero semi-vertex angle == cylinder kernel) and R16.7 (classical shell
kernels == Hessian of the strain energy of the package's own linear strain field)."""
import ast
import os
from concurrent.futures import ProcessPoolExecutor

from . import pyxast, shellenergy as se
from .c17 import conecyl_db
from .poly import P, nfs
from .pyrules import module, norm
from .report import repo_path, REPO, AnalysisError

S, C = P.sym, P.const
CONECYL = 'compmech/conecyl/conecyl.py'
BLOCK = {(0, 0): '00', (0, 1): '01', (0, 2): '02', (1, 1): '11', (1, 2): '12', (2, 2): '22'}


def _file(name):
    for sub in ('clpt', 'fsdt'):
        p = 'compmech/conecyl/%s/%s.pyx' % (sub, name)
        if os.path.exists(repo_path(p)):
            return p
    return None


def _task_cone0(args):
    rel, fcone, fcyl = args
    try:
        u = pyxast.parse(repo_path(rel), REPO)
        if u.func(fcone) is None or u.func(fcyl) is None:
            return args, None, None, None
        defs = se.section_defs(u, fcone)
        tile = {k: [nfs(v) if v is not None else None for v in vs] for k, vs in defs.items()}
        return args, se.cone0_vs_cyl(u, fcone, fcyl), tile, None
    except AnalysisError as e:
        return args, None, None, str(e)


def _task_energy(args):
    model, crel, kin, lrel, fname, cone = args
    try:
        cu = pyxast.parse(repo_path(crel), REPO)
        B, trig, basis, ne = se.strain_B(cu, 'cfstrain_' + kin)
        ku = pyxast.parse(repo_path(lrel), REPO)
        return args, se.compare_kernel(ku, fname, B, trig, basis, ne, cone), None
    except AnalysisError as e:
        return args, None, str(e)


def built_linear():
    db = conecyl_db()
    built = set(pyxast.built_sources(REPO))
    out = {}
    for model, ent in db.items():
        lin = ent.get('linear')
        if lin in (None, 'None'):
            continue
        rel = _file(lin)
        if rel and rel in built:
            out[model] = (rel, ent)
    return out


def r16_4(chk, pool):
    mods = built_linear()
    rels = sorted({rel for rel, ent in mods.values()})
    tasks = [(rel, a, b) for rel in rels for a, b in (('fk0', 'fk0_cyl'), ('fkG0', 'fkG0_cyl'))]
    n = npairs = 0
    want_tile = {'xa': ['1*L*s^-1*section'], 'xb': ['1*L*s^-1+1*L*s^-1*section']}
    for (rel, fcone, fcyl), res, tile, err in pool.map(_task_cone0, tasks):
        if err:
            raise AnalysisError(err)
        if res is None:
            continue
        npairs += 1
        chk.ob('R16.4', tile == want_tile, rel, fcone, 'sections tile the meridian', expected='xa = L*section/s, xb = L*(section+1)/s', got=tile,
               sample='%s.%s: sections [L*section/s, L*(section+1)/s]' % (os.path.basename(rel), fcone))
        for r in res:
            n += 1
            construct = '%s%s cell %s entry (%d,%d)' % (fcone[1:], BLOCK.get(r['block'], ''), r['cell'], r['dof'][0], r['dof'][1])
            chk.ob('R16.4', r['ok'] is True, rel, fcone, construct, line=r['line'],
                   expected='sum over the sections of %s at alpharad = 0 (sin = 0, cos = 1, r = r2; telescoped H(L) - H(0)) equals the %s entry' % (fcone, fcyl),
                   got='differs' if r['ok'] is False else 'not decidable: ' + r['detail'] if r['ok'] is None else 'equal',
                   detail=r['detail'] + (' [cone emits %d, cylinder emits %d]' % (r['cone_emits'], r['cyl_emits'])),
                   sample='%s: %s at alpha=0 == %s, %s' % (os.path.basename(rel), fcone, fcyl, construct) if n % 150 == 1 else None)
    chk.floor('R16.4 kernel pairs', npairs, 30)
    chk.floor('R16.4 compared entries', n, 2500)


def prescribed_always(chk):
    """amplitude 2 (load asymmetry) is always prescribed: ConeCyl._rebuild raises unless pdLA"""
    fn = module(CONECYL).method('ConeCyl', '_rebuild')
    ok = False
    for n in ast.walk(fn):
        if isinstance(n, ast.If) and norm(n.test) in ('notself.pdLA', 'self.pdLA==False', 'notpdLA') and any(isinstance(b, ast.Raise) for b in n.body):
            ok = True
        if isinstance(n, ast.If) and norm(n.test) in ('self.pdLA', 'self.pdLA==True') and any(isinstance(b, ast.Raise) for b in n.orelse):
            ok = True
    chk.ob('R16.7', ok, CONECYL, 'ConeCyl._rebuild', 'amplitude 2 is always prescribed', expected='_rebuild raises unless pdLA (so rows/columns of amplitude 2 are outside "the amplitudes that are not prescribed")',
           sample='ConeCyl._rebuild: raise NotImplementedError unless pdLA')
    return ok


def r16_7(chk, pool):
    mods = built_linear()
    skip2 = prescribed_always(chk)
    tasks = []
    for model, (rel, ent) in sorted(mods.items()):
        parts = model.split('_')
        if parts[0] != 'clpt' or len(parts) < 3 or parts[1] not in ('donnell', 'sanders'):
            continue
        crel = _file(ent.get('commons'))
        if crel is None:
            continue
        for fname, cone in (('fk0_cyl', False), ('fk0', True)):
            tasks.append((model, crel, parts[1], rel, fname, cone))
    n = 0
    nk = 0
    for (model, crel, kin, rel, fname, cone), res, err in pool.map(_task_energy, tasks):
        if err:
            raise AnalysisError(err)
        nk += 1
        for r in res:
            n += 1
            construct = 'k0_%s cell %s entry (%d,%d)' % (BLOCK.get(r['block'], ''), r['cell'], r['dof'][0], r['dof'][1])
            ok = r['ok'] is True and not r['unjustified_div']
            got = 'equal'
            if r['ok'] is False:
                got = 'differs' if r['emits'] else 'no entry emitted although the energy couples these amplitudes'
            elif r['ok'] is None:
                got = 'not decidable: ' + r['detail']
            elif r['unjustified_div']:
                got = 'division by %s, which can vanish in this cell' % r['unjustified_div']
            chk.ob('R16.7', ok, rel, fname, construct, line=r['line'],
                   expected='int int B_row^T F B_col r dtheta dx with B read from %s.cfstrain_%s (linear part, section radius frozen as in the kernel)' % (os.path.basename(crel), kin),
                   got=got, detail=r['detail'],
                   sample='%s.%s %s == second derivative of the strain energy' % (os.path.basename(rel), fname, construct) if n % 200 == 1 else None)
    chk.floor('R16.7 kernels compared with the energy oracle', nk, 16)
    chk.floor('R16.7 entries', n, 2500)


def run(chk):
    with ProcessPoolExecutor(max_workers=min(16, os.cpu_count() or 4)) as pool:
        r16_4(chk, pool)
        r16_7(chk, pool)
