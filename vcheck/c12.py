"""C12 - penalty connection matrices = Hessian of the interface mismatch energy."""
import ast
import re
from fractions import Fraction as Fr

from . import spec, panelk, pyrules, pyflow
from .kernel import Factor
from .poly import P, Rat, from_ast
from .spec import S, C
from .pyrules import module, norm, attr_calls
from .pyflow import Sig, bind, dotted
from .report import AnalysisError

LEVEL = 'proof'
CONN = 'compmech/panel/connections/'
ASSEMBLY = 'compmech/panel/assembly/assembly.py'
KINDS = ('SSxcte', 'SSycte', 'BFxcte', 'BFycte', 'SB')
DOF = spec.DOF3


def jumps(kind):
    """interface table (DESIGN.md C12): list of (penalty, [(coef-tag, panel, field, dx, dy)])
    coef-tag: +1/-1 times optional factor name ('rotx'/'roty' = chain rule 2/a_p or 2/b_p, 'dsbx'/'dsby')"""
    T = []
    if kind in ('SSxcte', 'SSycte'):
        T = [('kt', [(1, None, 1, 'u', 0, 0), (-1, None, 2, 'u', 0, 0)]),
             ('kt', [(1, None, 1, 'v', 0, 0), (-1, None, 2, 'v', 0, 0)]),
             ('kt', [(1, None, 1, 'w', 0, 0), (-1, None, 2, 'w', 0, 0)])]
    elif kind == 'BFxcte':
        T = [('kt', [(1, None, 1, 'u', 0, 0), (-1, None, 2, 'w', 0, 0)]),
             ('kt', [(1, None, 1, 'v', 0, 0), (-1, None, 2, 'v', 0, 0)]),
             ('kt', [(1, None, 1, 'w', 0, 0), (1, None, 2, 'u', 0, 0)])]
    elif kind == 'BFycte':
        T = [('kt', [(1, None, 1, 'u', 0, 0), (-1, None, 2, 'u', 0, 0)]),
             ('kt', [(1, None, 1, 'v', 0, 0), (-1, None, 2, 'w', 0, 0)]),
             ('kt', [(1, None, 1, 'w', 0, 0), (1, None, 2, 'v', 0, 0)])]
    elif kind == 'SB':
        T = [('kt', [(1, None, 1, 'u', 0, 0), (1, 'dsbx', 1, 'w', 1, 0), (-1, None, 2, 'u', 0, 0)]),
             ('kt', [(1, None, 1, 'v', 0, 0), (1, 'dsby', 1, 'w', 0, 1), (-1, None, 2, 'v', 0, 0)]),
             ('kt', [(1, None, 1, 'w', 0, 0), (-1, None, 2, 'w', 0, 0)])]
    if kind.endswith('xcte'):
        T.append(('kr', [(1, 'rotx', 1, 'w', 1, 0), (-1, 'rotx', 2, 'w', 1, 0)]))
    elif kind.endswith('ycte'):
        T.append(('kr', [(1, 'roty', 1, 'w', 0, 1), (-1, 'roty', 2, 'w', 0, 1)]))
    return T


def conn_spec(kind, pa, pb, k, pts, names, tagmap=None, geom=None):
    """blocks of the Hessian d2/dc_A dc_B of kt/2 int sum jump^2 + kr/2 int rot^2
    for A on panel pa, B on panel pb"""
    atoms = k.w.atoms
    tagmap = tagmap or {1: '1', 2: '2'}
    geom = geom or {}
    a = {1: geom.get('a1', S('a1')), 2: geom.get('a2', S('a2'))}
    b = {1: geom.get('b1', S('b1')), 2: geom.get('b2', S('b2'))}
    out = {}
    if kind.endswith('xcte'):
        line, meas = 'x', b[1] * C(Fr(1, 2))
    elif kind.endswith('ycte'):
        line, meas = 'y', a[1] * C(Fr(1, 2))
    else:
        line, meas = None, a[1] * b[1] * C(Fr(1, 4))

    def coef(sign, tag, p):
        c = C(sign)
        if tag == 'rotx':
            c = c * C(2) / a[p]
        elif tag == 'roty':
            c = c * C(2) / b[p]
        elif tag == 'dsbx':
            c = c * S(names['dsb']) * C(2) / a[p]
        elif tag == 'dsby':
            c = c * S(names['dsb']) * C(2) / b[p]
        return c
    for pen, terms in jumps(kind):
        kpen = S(names[pen])
        for (s1, t1, p1, f1, dx1, dy1) in terms:
            if p1 != pa:
                continue
            for (s2, t2, p2, f2, dx2, dy2) in terms:
                if p2 != pb:
                    continue
                A = lambda d: Factor('A', tagmap[p1], f1, d)
                B = lambda d: Factor('B', tagmap[p2], f2, d)
                if line == 'x':
                    val = S(atoms.point('x', A(dx1), pts[('x', str(p1))])) * S(atoms.point('x', B(dx2), pts[('x', str(p2))])) * \
                        S(atoms.integral('y', 'full', A(dy1), B(dy2)))
                elif line == 'y':
                    val = S(atoms.point('y', A(dy1), pts[('y', str(p1))])) * S(atoms.point('y', B(dy2), pts[('y', str(p2))])) * \
                        S(atoms.integral('x', 'full', A(dx1), B(dx2)))
                else:
                    val = S(atoms.integral('x', 'full', A(dx1), B(dx2))) * S(atoms.integral('y', 'full', A(dy1), B(dy2)))
                key = (DOF[f1], DOF[f2])
                out[key] = out.get(key, P()) + kpen * meas * coef(s1, t1, p1) * coef(s2, t2, p2) * val
    return {k_: v for k_, v in out.items() if v.t}


def interface_points(chk, k, rel, fname, kind):
    """point atoms used -> {(dir, tag): at}; their definitions must be
    2*cte/a - 1 (xcte) or 2*cte/b - 1 (ycte) of the *same* panel"""
    pts = {}
    for es in k.blocks.values():
        for e in es:
            for a in e.resolved.atoms():
                info = k.w.atoms.reg.get(a)
                if info and info[0] == 'P':
                    pts.setdefault((info[1], info[2].tag), set()).add(info[3])
    out = {}
    fr = panelk.kern_frame(k)
    for (d, tag), ats in sorted(pts.items()):
        if len(ats) != 1:
            chk.ob('R12.1', False, rel, fname, 'interface point of panel %s' % tag, expected='one evaluation point per panel', got=sorted(ats))
            continue
        at = ats.pop()
        out[(d, tag)] = at
        cte = [p for p in k.w.params if re.match(r'^[xy]cte%s$' % tag, p)]
        want_dir = 'x' if kind.endswith('xcte') else 'y'
        ok = False
        got = None
        if len(cte) == 1 and d == want_dir and cte[0].startswith(want_dir):
            exp = C(2) * S(cte[0]) / S(('a' if d == 'x' else 'b') + tag) - C(1)
            try:
                got = panelk.expand_frame(fr, at)
                ok = got.close(exp)
            except (KeyError, ValueError) as e:
                got = str(e)
        chk.ob('R12.1', ok, rel, fname, 'interface coordinate of panel %s' % tag,
               expected='%s = 2*%scte%s/%s%s - 1' % (at, want_dir, tag, 'a' if want_dir == 'x' else 'b', tag), got=repr(got),
               sample='%s: %s = 2*%s/%s%s - 1' % (fname, at, cte[0] if cte else '?', 'a' if want_dir == 'x' else 'b', tag))
    return out


def check_conn_kernel(chk, kind, blk):
    rel = CONN + 'kC%s.pyx' % kind
    fname = 'fkC%s%s' % (kind, blk)
    pa, pb = {'11': (1, 1), '12': (1, 2), '22': (2, 2)}[blk]
    k = panelk.load_kernel(chk, rel, fname)
    panelk.issue_obligations(chk, 'R12.1', k, rel)
    pts = interface_points(chk, k, rel, fname, kind) if kind != 'SB' else {}
    # parameter roles by position: (kt, kr | dsb) come first
    pr = k.w.params
    names = {'kt': pr[0]}
    if kind == 'SB':
        names['dsb'] = pr[1] if blk != '22' else 'dsb'
    else:
        names['kr'] = pr[1]
    need_pts = {('x' if kind.endswith('xcte') else 'y', str(p)) for p in {pa, pb}} if kind != 'SB' else set()
    if not need_pts <= set(pts):
        chk.ob('R12.1', False, rel, fname, 'interface points', expected=sorted(need_pts), got=sorted(pts))
        return k
    got = {pq: k.block(pq) for pq in k.blocks}
    exp = conn_spec(kind, pa, pb, k, pts, names)
    panelk.compare_blocks(chk, 'R12.1', k, rel, got, exp, 'Hessian of kt/2 int|jump|^2 + kr/2 int rot^2')
    for pq, es in k.blocks.items():
        chk.ob('R12.1', len(es) == 1, rel, fname, 'single emit (%d,%d)' % pq, line=es[0].line)
    chk.ob('R12.1', not k.other_arrays, rel, fname, 'no other array written', got=sorted(k.other_arrays))
    # linear in the penalty constants
    for pq, v in got.items():
        degs = v.degree_in(lambda a: a in (names.get('kt'), names.get('kr')))
        chk.ob('R12.1', degs == {1}, rel, fname, 'proportional to kt/kr (%d,%d)' % pq, got=sorted(degs))
    # R12.2 fill discipline
    guards = panelk.guards_of(k)
    if blk in ('11', '22'):
        ok = bool(guards) and all(gs == ('skip-if row > col',) for gs in guards)
        exp_g = 'upper triangle only: if row > col: continue'
    else:
        ok = bool(guards) and all(gs == () for gs in guards)
        exp_g = 'coupling block filled completely (no guard)'
    chk.ob('R12.2', ok, rel, fname, 'fill discipline', expected=exp_g, got=sorted({g for gs in guards for g in gs}))
    probs = panelk.index_map_problems(k, 3)
    for line, base, e, g_ in probs:
        chk.ob('R12.2', False, rel, fname, 'index map ' + base, line=line, expected=e, got=g_)
    # rows belong to panel pa, columns to panel pb
    for (rbase, rdef, cbase, cdef, mapping, e) in k.row_defs[:1]:
        rt = {panelk._bound_atom(k.w, t)[1:] for t in k.w.loop_tokens(rdef)}
        ct = {panelk._bound_atom(k.w, t)[1:] for t in k.w.loop_tokens(cdef)}
        chk.ob('R12.2', rt == {str(pa)} and ct == {str(pb)}, rel, fname, 'row/column panels',
               expected='rows indexed by panel %d series, columns by panel %d series' % (pa, pb), got=(sorted(rt), sorted(ct)),
               sample='%s rows p%d, cols p%d' % (fname, pa, pb))
    if blk in ('11', '22'):
        for pq in sorted(got):
            sw = panelk.swap_roles(got.get((pq[1], pq[0]), P()), k.w.atoms)
            chk.ob('R12.1', got[pq].close(sw), rel, fname, 'role-swap (%d,%d)' % pq, expected='E_PQ(A,B) == E_QP(B,A)')
    return k


def run(chk):
    chk.level = LEVEL
    chk.trusted = ['python3 ast', 'E1 lowering', 'Fraction polynomial arithmetic', 'C10 integral/function tables',
                   'interface jump tables in vcheck/c12.py (DESIGN.md C12)']
    n = 0
    for kind in KINDS:
        for blk in ('11', '12', '22'):
            k = check_conn_kernel(chk, kind, blk)
            n += len(k.blocks)
    chk.floor('R12.1 connection emits', n, 53)
    r12_python(chk)
    from . import stiffk
    stiffk.r12_5(chk)
    chk.explanation = ('all 15 connection kernels compared block by block with the Hessian of the penalty '
                       'energy built from the interface jump tables; dispatch/placement/penalty constants on the Python side')


# --------------------------------------------------------------------------


def r12_python(chk):
    m = module(ASSEMBLY)
    fn = m.method('PanelAssembly', 'get_k0_conn')
    fname = 'PanelAssembly.get_k0_conn'
    # dispatch: each func value maps to its own kernel triple, with placement
    branches = []
    node = None
    for n in ast.walk(fn):
        if isinstance(n, ast.For):
            for st in n.body:
                if isinstance(st, ast.If):
                    node = st
    chk.need(node is not None, fname + ': dispatch chain vanished')
    while isinstance(node, ast.If):
        t = node.test
        val = None
        if isinstance(t, ast.Compare) and len(t.ops) == 1 and isinstance(t.ops[0], ast.Eq) and isinstance(t.comparators[0], ast.Constant):
            val = t.comparators[0].value
        branches.append((val, node.body, node.lineno))
        node = node.orelse[0] if len(node.orelse) == 1 and isinstance(node.orelse[0], ast.If) else None
    seen = {v for v, b, l in branches}
    chk.ob('R12.3', set(KINDS) <= seen, ASSEMBLY, fname, 'dispatch covers the five kinds', expected=sorted(KINDS), got=sorted(map(str, seen)))
    place = {'11': ('p1.row_start', 'p1.col_start'), '12': ('p1.row_start', 'p2.col_start'), '22': ('p2.row_start', 'p2.col_start')}
    ktype = {'SSxcte': 'xcte', 'SSycte': 'ycte', 'BFxcte': 'xcte', 'BFycte': 'ycte', 'SB': 'bot-top'}
    for val, body, line in branches:
        if val not in KINDS:
            continue
        rel = CONN + 'kC%s.pyx' % val
        calls = [c for st in body for c in pyflow.calls_in(st)]
        ktkr = [c for c in calls if pyflow.callee_name(c) == 'calc_kt_kr']
        ok = len(ktkr) == 1 and [norm(a) for a in ktkr[0].args] == ['p1', 'p2', repr(ktype[val])]
        chk.ob('R12.3', ok, ASSEMBLY, fname, '%s penalty constants' % val, line=line,
               expected="calc_kt_kr(p1, p2, '%s')" % ktype[val], got=[norm(c) for c in ktkr])
        defs = {}
        for st in body:
            if isinstance(st, ast.Assign) and isinstance(st.targets[0], ast.Name):
                defs[st.targets[0].id] = st.value
        for blk in ('11', '12', '22'):
            kname = 'fkC%s%s' % (val, blk)
            cs = [c for c in calls if pyflow.callee_name(c) == kname and dotted(c.func) == 'connections.kC%s.%s' % (val, kname)]
            if len(cs) != 1:
                chk.ob('R12.3', False, ASSEMBLY, fname, '%s call' % kname, line=line, expected='exactly one call in the %s branch' % val, got=len(cs))
                continue
            call = cs[0]
            sig = pyrules.kernel_sig(rel, kname)
            mp, probs = bind(call, sig)
            got = pyrules.bound_texts(fn, mp)
            exp = {'kt': 'kt', 'size': 'size', 'row0': place[blk][0], 'col0': place[blk][1]}
            if 'kr' in sig.names:
                exp['kr'] = 'kr'
            for p in sig.names:
                if p in ('p1', 'p2'):
                    exp[p] = p
                mm = re.match(r'^([xy]cte[12])$', p)
                if mm:
                    exp[p] = "connecti['%s']" % p
            if 'dsb' in sig.names:
                exp['dsb'] = 'dsb'
            ok = not probs and got == exp
            chk.ob('R12.3', ok, ASSEMBLY, fname, '%s call binding and placement' % kname, line=call.lineno,
                   expected=exp, got=got, detail='; '.join(probs), sample='%s placed at (%s, %s)' % (kname, place[blk][0], place[blk][1]))
            st = pyrules.stmt_of(fn, call)
            chk.ob('R12.3', isinstance(st, ast.AugAssign) and isinstance(st.op, ast.Add) and norm(st.target) == 'k0_conn',
                   ASSEMBLY, fname, '%s accumulated' % kname, line=call.lineno, expected='k0_conn += ...')
        if val == 'SB':
            d = defs.get('dsb')
            okd = False
            if d is not None:
                try:
                    v = from_ast(d, {}, lambda n: P.sym(norm(n)) if isinstance(n, ast.Call) else None)
                    okd = v == (S('sum(p1.plyts)') + S('sum(p2.plyts)')) * C(Fr(1, 2))
                except Exception:
                    okd = False
            chk.ob('R12.3', okd, ASSEMBLY, fname, 'SB offset dsb', expected='(h1 + h2)/2', got=norm(d))
    pyrules.check_finalize_path(chk, 'R12.3', ASSEMBLY, 'PanelAssembly', 'get_k0_conn', 'k0_conn')
    # triangle rule: the full 12 block is placed at (p1.row_start, p2.col_start) and then passes
    # through make_symmetric, which keeps col >= row only. Accepted: the value of the 12 call goes
    # through a transposition that is taken exactly when p1 lies after p2 (inline conditional
    # expression, or a local helper whose body is that conditional expression).
    helpers = {n.name: n for n in fn.body if isinstance(n, ast.FunctionDef)}

    def transposes_when_after(expr, k, a, b):
        """expr == `k.T if a.row_start > b.col_start else k` (or the mirrored form)"""
        if not isinstance(expr, ast.IfExp) or not isinstance(expr.test, ast.Compare) or len(expr.test.ops) != 1:
            return False
        l, r, op = norm(expr.test.left), norm(expr.test.comparators[0]), expr.test.ops[0]
        after = (l == a + '.row_start' and r in (b + '.col_start', b + '.row_start') and isinstance(op, (ast.Gt, ast.GtE))) or \
                (r == a + '.row_start' and l in (b + '.col_start', b + '.row_start') and isinstance(op, (ast.Lt, ast.LtE)))
        before = (l == a + '.row_start' and r in (b + '.col_start', b + '.row_start') and isinstance(op, (ast.Lt, ast.LtE))) or \
                 (r == a + '.row_start' and l in (b + '.col_start', b + '.row_start') and isinstance(op, (ast.Gt, ast.GtE)))
        body, orelse = norm(expr.body), norm(expr.orelse)
        if after:
            return body in (k + '.T', k + '.transpose()') and orelse == k
        if before:
            return orelse in (k + '.T', k + '.transpose()') and body == k
        return False

    def guarded(call):
        par = None
        for n in ast.walk(fn):
            for ch in ast.iter_child_nodes(n):
                if ch is call:
                    par = n
        if isinstance(par, ast.Call) and isinstance(par.func, ast.Name) and par.func.id in helpers and len(par.args) == 3 \
                and par.args[0] is call and [norm(x) for x in par.args[1:]] == ['p1', 'p2']:
            h = helpers[par.func.id]
            ps = [x.arg for x in h.args.args]
            rets = [x for x in ast.walk(h) if isinstance(x, ast.Return)]
            body = [x for x in h.body if not (isinstance(x, ast.Expr) and isinstance(x.value, ast.Constant))]
            return len(ps) == 3 and len(rets) == 1 and len(body) == 1 and transposes_when_after(rets[0].value, ps[0], ps[1], ps[2])
        return False
    for val, body, line in branches:
        if val not in KINDS:
            continue
        kname = 'fkC%s12' % val
        cs = [c for st in body for c in pyflow.calls_in(st) if pyflow.callee_name(c) == kname]
        ok = len(cs) == 1 and guarded(cs[0])
        chk.ob('R12.3', ok, ASSEMBLY, fname, 'triangle rule (%s12)' % val, line=line,
               expected='the coupling block survives the upper-triangle selection for either order of the two panels: its value passes through `k.T if p1.row_start > p2.col_start else k`',
               got='transposed when p1 lies after p2' if ok else 'no transposition conditional on the order of the panels',
               detail='' if ok else 'the (p1,p2) block of %s is added at (p1.row_start, p2.col_start) and make_symmetric drops everything below the diagonal: with p2 listed before p1 the coupling is silently lost' % val,
               sample='%s: coupling block transposed when p1.row_start > p2.col_start' % kname)
    r12_4(chk)


def r12_4(chk):
    """calc_kt_kr: each branch symmetric under p1<->p2 in the laminate constants,
    homogeneous of degree 1 in (A, D)"""
    rel = CONN + 'penalty_constants.py'
    m = module(rel)
    fn = m.function('calc_kt_kr')
    env = {}

    def leaf(n):
        if isinstance(n, (ast.Attribute, ast.Subscript, ast.Call)):
            return P.sym(norm(n))
        return None
    for st in fn.body:
        if isinstance(st, ast.Assign) and isinstance(st.targets[0], ast.Name):
            try:
                env[st.targets[0].id] = from_ast(st.value, env, leaf, ring=Rat)
            except Exception:
                pass

    def swap(p):
        def f(a):
            if 'p1.lam' in a:
                return a.replace('p1.lam', 'p2.lam')
            if 'p2.lam' in a:
                return a.replace('p2.lam', 'p1.lam')
            return a
        return Rat(p.n.rename(f), p.d.rename(f))
    node = None
    for st in fn.body:
        if isinstance(st, ast.If) and 'connection_type' in norm(st.test):
            node = st
    chk.need(node is not None, 'calc_kt_kr: branch chain vanished')
    n = 0
    while isinstance(node, ast.If):
        ctype = None
        for c in ast.walk(node.test):
            if isinstance(c, ast.Constant) and isinstance(c.value, str):
                ctype = c.value
        benv = dict(env)
        for st in node.body:
            if isinstance(st, ast.Assign) and isinstance(st.targets[0], ast.Name) and st.targets[0].id in ('kt', 'kr'):
                nm = st.targets[0].id
                if isinstance(st.value, ast.Constant) and st.value.value is None:
                    continue
                try:
                    v = from_ast(st.value, benv, leaf, ring=Rat)
                except Exception as e:
                    chk.ob('R12.4', False, rel, 'calc_kt_kr', '%s %s' % (ctype, nm), line=st.lineno, detail='cannot evaluate: %s' % e)
                    continue
                n += 1
                if ctype in ('xcte', 'ycte', 'bot-top'):
                    # symmetric in the laminate constants of the two panels
                    chk.ob('R12.4', v.equals(swap(v)), rel, 'calc_kt_kr', '%s %s symmetric in the laminates' % (ctype, nm), line=st.lineno,
                           expected='invariant under p1.lam <-> p2.lam', got=norm(st.value),
                           sample='%s %s = %s' % (ctype, nm, norm(st.value)))
                # homogeneous of degree 1 in the stiffness entries
                isAD = lambda a: '.lam.A[' in a or '.lam.D[' in a
                dn = v.n.degree_in(isAD)
                dd = v.d.degree_in(isAD)
                chk.ob('R12.4', len(dn) == 1 and len(dd) == 1 and (dn.pop() - dd.pop()) == 1, rel, 'calc_kt_kr',
                       '%s %s linear in the moduli' % (ctype, nm), line=st.lineno, expected='homogeneous of degree 1 in A/D entries', got=norm(st.value))
        node = node.orelse[0] if len(node.orelse) == 1 and isinstance(node.orelse[0], ast.If) else None
    chk.floor('R12.4 penalty formulas', n, 5)
