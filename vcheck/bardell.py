"""E5 (part) - exact oracle for Bardell's hierarchical polynomials.

Re-implementation of the defining formula (Bardell 1991; the same formula as
theory/func/bardell/bardell.py:17-22, which is *read* by nobody here) with
exact rationals.  Polynomials are dense coefficient lists, index = power.
"""
from fractions import Fraction as Fr
from math import factorial, comb
from functools import lru_cache

NMAX = 30


def _dfact(n):
    # double factorial with (-1)!! = 1, 0!! = 1 ; negative odd via recurrence
    if n in (-1, 0):
        return Fr(1)
    if n < -1:
        # (n)!! = (n+2)!!/(n+2)
        return _dfact(n + 2) / (n + 2)
    r = 1
    while n > 1:
        r *= n
        n -= 2
    return Fr(r)


@lru_cache(None)
def functions(nmax=NMAX):
    u = [[Fr(1, 2), Fr(-3, 4), Fr(0), Fr(1, 4)],
         [Fr(1, 8), Fr(-1, 8), Fr(-1, 8), Fr(1, 8)],
         [Fr(1, 2), Fr(3, 4), Fr(0), Fr(-1, 4)],
         [Fr(-1, 8), Fr(-1, 8), Fr(1, 8), Fr(1, 8)]]
    for r in range(5, nmax + 1):
        p = [Fr(0)] * r
        for n in range(0, r // 2 + 1):
            e = r - 2 * n - 1
            if e < 0:
                continue
            p[e] += Fr((-1) ** n) * _dfact(2 * r - 2 * n - 7) / (2 ** n * factorial(n) * factorial(e))
        u.append(p)
    return tuple(tuple(p) for p in u)


def pdiff(p, k=1):
    p = list(p)
    for _ in range(k):
        p = [i * c for i, c in enumerate(p)][1:] or [Fr(0)]
    return p


def pmul(a, b):
    r = [Fr(0)] * (len(a) + len(b) - 1)
    for i, x in enumerate(a):
        if x:
            for j, y in enumerate(b):
                if y:
                    r[i + j] += x * y
    return r


def pint(p):
    return [Fr(0)] + [c / (i + 1) for i, c in enumerate(p)]


def peval(p, x):
    r = Fr(0)
    for c in reversed(p):
        r = r * x + c
    return r


@lru_cache(None)
def deriv(i, d):
    return tuple(pdiff(functions()[i], d))


@lru_cache(None)
def antiderivative(i, j, d1, d2):
    return tuple(pint(pmul(deriv(i, d1), deriv(j, d2))))


def full_integral(i, j, d1, d2):
    F = antiderivative(i, j, d1, d2)
    return peval(F, Fr(1)) - peval(F, Fr(-1))


def moment(p, k):
    """int_{-1}^{1} p(x) x^k dx"""
    return sum((c * Fr(2, i + k + 1) for i, c in enumerate(p) if c and (i + k) % 2 == 0), Fr(0))


def mapped_integral(i, j, d1, d2):
    """int_{-1}^{1} f_i^(d1)(x) * f_j^(d2)(c0 + c1 x) dx as {(e_c0, e_c1): Fr}"""
    plain = deriv(i, d1)
    mapped = deriv(j, d2)
    maxk = len(mapped)
    mom = [moment(plain, p) for p in range(maxk)]
    out = {}
    for k, ak in enumerate(mapped):
        if not ak:
            continue
        for p in range(k + 1):
            if mom[p]:
                key = (k - p, p)
                v = out.get(key, 0) + ak * comb(k, p) * mom[p]
                if v:
                    out[key] = v
                else:
                    out.pop(key, None)
    return out
