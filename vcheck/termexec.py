"""Abstract interpretation of small list-manipulating functions over a term domain.

The value of a name is a python list of values (the list structure is tracked exactly: append / extend / insert / slices /
concatenation / comprehensions / generator expressions / loops are executed on it), an int / bool / None (tracked
exactly), or an opaque TERM: an ast expression over the inputs in which no local name is left.  Nothing of the analysed
code is run: calls, attributes and subscripts whose operand is a term only build a bigger term.  A test that cannot be
decided on the abstract values (``isinstance(A0, csr_matrix)``) forks the path; every path is explored (bounded) and the
caller compares the results of all of them.

The interpreter is used for rules about *which element ends where* (remove_null_cols: element k of the result is built from
argument k, the index set comes last): unlike the value-set flow of vcheck/symval.py it does not care whether the list is
built by a loop, a comprehension, ``extend`` of a generator, a peeled first iteration or a helper; it is exact for the
list lengths it is run with (the caller runs it for several lengths and separately checks that the function does not branch
on the length)."""
import ast
import copy


class Stop(Exception):
    pass


class Return(Exception):
    def __init__(self, value):
        self.value = value


class _Loop(Exception):
    pass


class _Break(_Loop):
    pass


class _Continue(_Loop):
    pass


class Term:
    __slots__ = ('node',)

    def __init__(self, node):
        self.node = node

    def text(self):
        return ast.unparse(self.node)

    def __repr__(self):
        return 'Term(%s)' % self.text()


class Gen:
    """a generator expression: the outermost iterable is evaluated where the expression stands, the rest when it is consumed
    (once) - as python does"""

    def __init__(self, ex, node, env, first):
        self.ex, self.node, self.env, self.first, self.done = ex, node, env, first, False

    def items(self):
        if self.done:
            return []
        self.done = True
        out = []
        e = self.node

        def emit(en):
            out.append(self.ex.ev(e.elt, en))
        g = e.generators[0]
        for item in self.first:
            en = dict(self.env)
            self.ex.assign(g.target, item, en)
            if all(self.ex.test(c, en) for c in g.ifs):
                self.ex.comp(e.generators, 1, en, emit)
        return out


def _assigned(fn):
    out = set()
    for n in ast.walk(fn):
        if isinstance(n, ast.Name) and isinstance(n.ctx, (ast.Store, ast.Del)):
            out.add(n.id)
        elif isinstance(n, ast.FunctionDef) and n is not fn:
            out.add(n.name)
    return out


def _dotted(n):
    if isinstance(n, ast.Name):
        return n.id
    if isinstance(n, ast.Attribute):
        b = _dotted(n.value)
        return b + '.' + n.attr if b else None
    return None


IGNORED_CALLS = ('log', 'msg', 'warn', 'print', 'error')
IDENTITY_CALLS = ('csr_matrix', 'csc_matrix', 'coo_matrix', 'np.asarray', 'np.array', 'np.ascontiguousarray')


class Exec:
    """one abstract run of ``fn`` per decision vector; ``results()`` -> list of (decisions, value | Stop text)"""

    def __init__(self, fn, helpers=None, identity=IDENTITY_CALLS, max_paths=64, max_steps=4000):
        self.fn = fn
        self.helpers = helpers or {}
        self.identity = identity
        self.max_paths = max_paths
        self.max_steps = max_steps

    # -- path enumeration by replay -------------------------------------------------------------
    def results(self, args, kwargs=None):
        out = []
        prefix = []
        while True:
            self.choices = list(prefix)
            self.pos = 0
            self.steps = 0
            self.tests = []
            try:
                v = self.call(self.fn, copy.deepcopy(args), dict(kwargs or {}))
                out.append((list(self.choices), v, list(self.tests)))
            except Stop as e:
                out.append((list(self.choices), e, list(self.tests)))
            # next decision vector: flip the last True
            ch = self.choices
            while ch and ch[-1] is False:
                ch.pop()
            if not ch or len(out) >= self.max_paths:
                break
            ch[-1] = False
            prefix = ch
        return out

    def decide(self, text):
        # the same question about the same term has the same answer along one path
        for t, c in self.tests:
            if t == text:
                return c
        if self.pos < len(self.choices):
            c = self.choices[self.pos]
        else:
            c = True
            self.choices.append(c)
        self.pos += 1
        self.tests.append((text, c))
        return c

    # -- calls -----------------------------------------------------------------------------------
    def call(self, fn, args, kwargs, closure=None):
        env = dict(closure) if closure else {}
        saved_locals = getattr(self, 'locals_', set())
        self.locals_ = saved_locals | _assigned(fn)
        try:
            return self._call(fn, args, kwargs, env)
        finally:
            self.locals_ = saved_locals

    def _call(self, fn, args, kwargs, env):
        a = fn.args
        pos = list(a.posonlyargs) + list(a.args)
        defaults = [None] * (len(pos) - len(a.defaults)) + list(a.defaults)
        rest = list(args)
        for p, d in zip(pos, defaults):
            if rest:
                env[p.arg] = rest.pop(0)
            elif p.arg in kwargs:
                env[p.arg] = kwargs.pop(p.arg)
            elif d is not None:
                env[p.arg] = self.ev(d, {})
            else:
                raise Stop('missing argument ' + p.arg)
        if a.vararg:
            env[a.vararg.arg] = ('tuple', list(rest))
        elif rest:
            raise Stop('too many arguments')
        for p, d in zip(a.kwonlyargs, a.kw_defaults):
            if p.arg in kwargs:
                env[p.arg] = kwargs.pop(p.arg)
            elif d is not None:
                env[p.arg] = self.ev(d, {})
        if a.kwarg:
            env[a.kwarg.arg] = ('dict', dict(kwargs))
        elif kwargs:
            raise Stop('unexpected keyword ' + sorted(kwargs)[0])
        try:
            self.block(fn.body, env)
        except Return as r:
            return r.value
        return None

    # -- expressions -----------------------------------------------------------------------------
    def term(self, v):
        """abstract value -> ast expression (lists of terms become list displays)"""
        if isinstance(v, Term):
            return v.node
        if isinstance(v, list):
            return ast.List(elts=[self.term(x) for x in v], ctx=ast.Load())
        if isinstance(v, tuple) and v and v[0] == 'tuple':
            return ast.Tuple(elts=[self.term(x) for x in v[1]], ctx=ast.Load())
        if v is None or isinstance(v, (bool, int, float, str)):
            return ast.Constant(value=v)
        if isinstance(v, Gen):
            raise Stop('a generator used as a value')
        raise Stop('value without a term: %r' % (v,))

    def seq(self, v):
        if isinstance(v, list):
            return v
        if isinstance(v, tuple) and v and v[0] == 'tuple':
            return v[1]
        return None

    def consume(self, v):
        """the items of a list / tuple / generator that is iterated here (None for a term)"""
        if isinstance(v, Gen):
            return v.items()
        return self.seq(v)

    def ev(self, e, env):
        self.steps += 1
        if self.steps > self.max_steps:
            raise Stop('step bound')
        if isinstance(e, ast.Constant):
            return e.value
        if isinstance(e, ast.Name):
            if e.id in env:
                return env[e.id]
            if e.id in self.locals_:
                raise Stop('local read before it is bound: ' + e.id)
            return Term(ast.Name(id=e.id, ctx=ast.Load()))     # global / builtin
        if isinstance(e, (ast.List, ast.Tuple)):
            items = []
            for x in e.elts:
                if isinstance(x, ast.Starred):
                    s = self.consume(self.ev(x.value, env))
                    if s is None:
                        raise Stop('star of a term')
                    items.extend(s)
                else:
                    items.append(self.ev(x, env))
            return items if isinstance(e, ast.List) else ('tuple', items)
        if isinstance(e, ast.IfExp):
            return self.ev(e.body if self.test(e.test, env) else e.orelse, env)
        if isinstance(e, ast.GeneratorExp):
            return Gen(self, e, env, self.iterate(e.generators[0].iter, env))
        if isinstance(e, ast.ListComp):
            out = []
            self.comp(e.generators, 0, env, lambda en: out.append(self.ev(e.elt, en)))
            return out
        if isinstance(e, ast.Subscript):
            base = self.ev(e.value, env)
            s = self.seq(base)
            if s is not None:
                if isinstance(e.slice, ast.Slice):
                    lo = None if e.slice.lower is None else self.ev(e.slice.lower, env)
                    hi = None if e.slice.upper is None else self.ev(e.slice.upper, env)
                    stp = None if e.slice.step is None else self.ev(e.slice.step, env)
                    if not all(x is None or (isinstance(x, int) and not isinstance(x, bool)) for x in (lo, hi, stp)):
                        raise Stop('symbolic slice of a list')
                    r = s[lo:hi:stp]
                    return r if isinstance(base, list) else ('tuple', r)
                k = self.ev(e.slice, env)
                if isinstance(k, int) and not isinstance(k, bool):
                    if -len(s) <= k < len(s):
                        return s[k]
                    raise Stop('index %d out of range' % k)
                raise Stop('symbolic index into a list')
            if isinstance(base, tuple) and base and base[0] == 'dict':
                k = self.ev(e.slice, env)
                if isinstance(k, str) and k in base[1]:
                    return base[1][k]
                raise Stop('dict key')
            return Term(ast.Subscript(value=self.term(base), slice=self.sub_slice(e.slice, env), ctx=ast.Load()))
        if isinstance(e, ast.Attribute):
            base = self.ev(e.value, env)
            return Term(ast.Attribute(value=self.term(base), attr=e.attr, ctx=ast.Load()))
        if isinstance(e, ast.Call):
            return self.ev_call(e, env)
        if isinstance(e, ast.BinOp):
            l, r = self.ev(e.left, env), self.ev(e.right, env)
            if isinstance(e.op, ast.Add) and self.seq(l) is not None and self.seq(r) is not None and type(l) == type(r):
                x = self.seq(l) + self.seq(r)
                return x if isinstance(l, list) else ('tuple', x)
            if all(isinstance(x, int) and not isinstance(x, bool) for x in (l, r)) and isinstance(e.op, (ast.Add, ast.Sub, ast.Mult)):
                return {ast.Add: l + r, ast.Sub: l - r, ast.Mult: l * r}[type(e.op)]
            return Term(ast.BinOp(left=self.term(l), op=e.op, right=self.term(r)))
        if isinstance(e, ast.UnaryOp):
            v = self.ev(e.operand, env)
            if isinstance(e.op, ast.Not):
                return not self.test(e.operand, env)
            if isinstance(v, int) and not isinstance(v, bool) and isinstance(e.op, ast.USub):
                return -v
            return Term(ast.UnaryOp(op=e.op, operand=self.term(v)))
        if isinstance(e, (ast.Compare, ast.BoolOp)):
            try:
                return self.test(e, env, fork=False)
            except Stop:
                pass
            if isinstance(e, ast.Compare):
                return Term(ast.Compare(left=self.term(self.ev(e.left, env)), ops=e.ops, comparators=[self.term(self.ev(c, env)) for c in e.comparators]))
            return Term(ast.BoolOp(op=e.op, values=[self.term(self.ev(v, env)) for v in e.values]))
        if isinstance(e, ast.JoinedStr):
            return Term(ast.Constant(value='<str>'))
        if isinstance(e, ast.Dict):
            if all(isinstance(k, ast.Constant) and isinstance(k.value, str) for k in e.keys):
                return ('dict', {k.value: self.ev(v, env) for k, v in zip(e.keys, e.values)})
        if isinstance(e, ast.Starred):
            raise Stop('bare star')
        if isinstance(e, ast.Lambda):
            return ('lambda', e, dict(env))
        raise Stop('expression ' + ast.unparse(e)[:50])

    def sub_slice(self, s, env):
        if isinstance(s, ast.Slice):
            return ast.Slice(lower=None if s.lower is None else self.term(self.ev(s.lower, env)),
                             upper=None if s.upper is None else self.term(self.ev(s.upper, env)),
                             step=None if s.step is None else self.term(self.ev(s.step, env)))
        if isinstance(s, ast.Tuple):
            return ast.Tuple(elts=[self.sub_slice(x, env) for x in s.elts], ctx=ast.Load())
        v = self.ev(s, env)
        if isinstance(v, tuple) and v and v[0] == 'tuple':
            return ast.Tuple(elts=[self.term(x) for x in v[1]], ctx=ast.Load())
        return self.term(v)

    def comp(self, gens, k, env, emit):
        if k == len(gens):
            emit(env)
            return
        g = gens[k]
        for item in self.iterate(g.iter, env):
            en = dict(env)
            self.assign(g.target, item, en)
            if all(self.test(c, en) for c in g.ifs):
                self.comp(gens, k + 1, en, emit)

    def iterate(self, it, env):
        if isinstance(it, ast.Call):
            f = _dotted(it.func)
            if f == 'enumerate' and 1 <= len(it.args) <= 2:
                s = self.consume(self.ev(it.args[0], env))
                start = self.ev(it.args[1], env) if len(it.args) == 2 else 0
                for kw in it.keywords:
                    if kw.arg == 'start':
                        start = self.ev(kw.value, env)
                if s is None or not isinstance(start, int):
                    raise Stop('enumerate of a term')
                return [('tuple', [start + k, x]) for k, x in enumerate(s)]
            if f == 'range':
                a = [self.ev(x, env) for x in it.args]
                if not all(isinstance(x, int) and not isinstance(x, bool) for x in a):
                    raise Stop('range of a term')
                return list(range(*a))
            if f == 'zip':
                ss = [self.consume(self.ev(x, env)) for x in it.args]
                if any(s is None for s in ss):
                    raise Stop('zip of a term')
                return [('tuple', list(t)) for t in zip(*ss)]
            if f == 'reversed' and len(it.args) == 1:
                s = self.seq(self.ev(it.args[0], env))
                if s is None:
                    raise Stop('reversed of a term')
                return list(reversed(s))
        s = self.consume(self.ev(it, env))
        if s is None:
            raise Stop('iteration over a term: ' + ast.unparse(it)[:40])
        return list(s)

    def ev_call(self, e, env):
        f = _dotted(e.func)
        if isinstance(e.func, ast.Name) and e.func.id in env:
            f = None
        args = []
        for a in e.args:
            if isinstance(a, ast.Starred):
                s = self.consume(self.ev(a.value, env))
                if s is None:
                    raise Stop('star of a term in a call')
                args.extend(s)
            else:
                args.append(self.ev(a, env))
        kws = {}
        for kw in e.keywords:
            if kw.arg is None:
                d = self.ev(kw.value, env)
                if isinstance(d, tuple) and d and d[0] == 'dict':
                    kws.update(d[1])
                else:
                    raise Stop('** of a term')
            else:
                kws[kw.arg] = self.ev(kw.value, env)
        if f in ('list', 'tuple') and len(args) <= 1 and not kws:
            if not args:
                return [] if f == 'list' else ('tuple', [])
            s = self.consume(args[0])
            if s is not None:
                return list(s) if f == 'list' else ('tuple', list(s))
            raise Stop('%s() of a term' % f)
        if f == 'len' and len(args) == 1 and self.seq(args[0]) is not None:
            return len(self.seq(args[0]))
        if f in ('chain', 'itertools.chain'):
            if all(isinstance(a, Gen) or self.seq(a) is not None for a in args):
                return [x for a in args for x in self.consume(a)]
        if f == 'isinstance' and len(args) == 2:
            if self.seq(args[0]) is not None:
                cls = ast.unparse(self.term(args[1]))
                return cls in ('list', 'tuple', '(list, tuple)', '(tuple, list)') and (isinstance(args[0], list) or 'tuple' in cls)
        if f in self.identity and len(args) == 1 and not kws:
            return args[0]
        if f in self.helpers:
            return self.call(self.helpers[f], args, kws)
        if isinstance(e.func, ast.Name) and e.func.id in env and isinstance(env[e.func.id], tuple) and env[e.func.id][0] == 'closure':
            _, cfn, cenv = env[e.func.id]
            if any(isinstance(x, (ast.Nonlocal, ast.Global)) for x in ast.walk(cfn)):
                raise Stop('nonlocal in a nested function')
            return self.call(cfn, args, kws, closure=cenv)
        if isinstance(e.func, ast.Name) and e.func.id in env and isinstance(env[e.func.id], tuple) and env[e.func.id][0] == 'lambda':
            _, lam, cenv = env[e.func.id]
            fn = ast.FunctionDef(name='<lambda>', args=lam.args, body=[ast.Return(value=lam.body)], decorator_list=[])
            return self.call_closure(fn, args, kws, cenv)
        if isinstance(e.func, ast.Attribute):
            recv = self.ev(e.func.value, env)
            if isinstance(recv, tuple) and recv and recv[0] == 'dict':
                if e.func.attr in ('get', 'pop') and args and isinstance(args[0], str):
                    if args[0] in recv[1]:
                        v = recv[1][args[0]]
                        if e.func.attr == 'pop':
                            del recv[1][args[0]]
                        return v
                    if len(args) == 2:
                        return args[1]
                    return None
                raise Stop('dict method ' + e.func.attr)
            if isinstance(recv, list):
                if e.func.attr == 'append' and len(args) == 1:
                    recv.append(args[0])
                    return None
                if e.func.attr == 'extend' and len(args) == 1 and (isinstance(args[0], Gen) or self.seq(args[0]) is not None):
                    recv.extend(self.consume(args[0]))
                    return None
                if e.func.attr == 'insert' and len(args) == 2 and isinstance(args[0], int):
                    recv.insert(args[0], args[1])
                    return None
                if e.func.attr == 'pop' and len(args) <= 1:
                    return recv.pop(*args)
                if e.func.attr == 'copy' and not args:
                    return list(recv)
                raise Stop('list method ' + e.func.attr)
            fnode = ast.Attribute(value=self.term(recv), attr=e.func.attr, ctx=ast.Load())
        else:
            fnode = self.term(self.ev(e.func, env)) if not isinstance(e.func, ast.Name) else ast.Name(id=e.func.id, ctx=ast.Load())
        return Term(ast.Call(func=fnode, args=[self.term(a) for a in args],
                             keywords=[ast.keyword(arg=k, value=self.term(v)) for k, v in kws.items()]))

    def call_closure(self, fn, args, kws, cenv):
        # a lambda sees the environment it was created in
        a = fn.args
        env = dict(cenv)
        names = [p.arg for p in a.args]
        if len(args) > len(names) or a.vararg or a.kwarg:
            raise Stop('lambda signature')
        for n, v in zip(names, args):
            env[n] = v
        for n in names[len(args):]:
            if n in kws:
                env[n] = kws[n]
            else:
                raise Stop('lambda argument')
        return self.ev(fn.body[0].value, env)

    # -- tests -----------------------------------------------------------------------------------
    def test(self, t, env, fork=True):
        if isinstance(t, ast.BoolOp):
            if isinstance(t.op, ast.And):
                for v in t.values:
                    if not self.test(v, env, fork):
                        return False
                return True
            for v in t.values:
                if self.test(v, env, fork):
                    return True
            return False
        if isinstance(t, ast.UnaryOp) and isinstance(t.op, ast.Not):
            return not self.test(t.operand, env, fork)
        if isinstance(t, ast.Compare) and len(t.ops) == 1:
            l, r = self.ev(t.left, env), self.ev(t.comparators[0], env)
            op = t.ops[0]
            conc = lambda x: x is None or isinstance(x, (bool, int, str))
            if conc(l) and conc(r):
                if isinstance(op, (ast.Is, ast.Eq)):
                    return l == r and (l is None) == (r is None)
                if isinstance(op, (ast.IsNot, ast.NotEq)):
                    return not (l == r and (l is None) == (r is None))
                if l is not None and r is not None:
                    return {ast.Lt: l < r, ast.LtE: l <= r, ast.Gt: l > r, ast.GtE: l >= r}[type(op)]
            if (l is None or r is None) and isinstance(op, (ast.Is, ast.IsNot)) and (self.seq(l) is not None or self.seq(r) is not None):
                return isinstance(op, ast.IsNot)
            if isinstance(op, (ast.In, ast.NotIn)) and isinstance(r, tuple) and r and r[0] == 'dict' and isinstance(l, str):
                return (l in r[1]) == isinstance(op, ast.In)
            if isinstance(op, (ast.Is, ast.IsNot)) and isinstance(l, Term) and isinstance(r, Term) and l.text() == r.text():
                return isinstance(op, ast.Is)
        else:
            v = self.ev(t, env)
            if v is None or isinstance(v, (bool, int, str)):
                return bool(v)
            if self.seq(v) is not None:
                return bool(self.seq(v))
            if isinstance(v, tuple) and v and v[0] == 'dict':
                return bool(v[1])
            if not fork:
                raise Stop('undecided')
            return self.decide(v.text() if isinstance(v, Term) else repr(v))
        if not fork:
            raise Stop('undecided')
        try:
            txt = ast.unparse(ast.Compare(left=self.term(l), ops=t.ops, comparators=[self.term(r)]))
        except Stop:
            txt = ast.unparse(t)
        return self.decide(txt)

    # -- statements ------------------------------------------------------------------------------
    def assign(self, target, v, env):
        if isinstance(target, ast.Name):
            env[target.id] = v
        elif isinstance(target, (ast.Tuple, ast.List)):
            s = self.seq(v)
            if s is None:
                # unpacking a term: components by position
                if any(isinstance(t, ast.Starred) for t in target.elts):
                    raise Stop('starred unpacking of a term')
                for k, t in enumerate(target.elts):
                    self.assign(t, Term(ast.Subscript(value=self.term(v), slice=ast.Constant(value=k), ctx=ast.Load())), env)
                return
            stars = [k for k, t in enumerate(target.elts) if isinstance(t, ast.Starred)]
            if stars:
                k = stars[0]
                after = len(target.elts) - k - 1
                if len(s) < len(target.elts) - 1:
                    raise Stop('unpacking length')
                for t, x in zip(target.elts[:k], s[:k]):
                    self.assign(t, x, env)
                self.assign(target.elts[k].value, list(s[k:len(s) - after]), env)
                for t, x in zip(target.elts[k + 1:], s[len(s) - after:]):
                    self.assign(t, x, env)
                return
            if len(s) != len(target.elts):
                raise Stop('unpacking length %d != %d' % (len(s), len(target.elts)))
            for t, x in zip(target.elts, s):
                self.assign(t, x, env)
        elif isinstance(target, ast.Subscript):
            base = self.ev(target.value, env)
            if isinstance(base, list):
                if isinstance(target.slice, ast.Slice):
                    lo = None if target.slice.lower is None else self.ev(target.slice.lower, env)
                    hi = None if target.slice.upper is None else self.ev(target.slice.upper, env)
                    s = self.seq(v)
                    if s is None or target.slice.step is not None or not all(x is None or isinstance(x, int) for x in (lo, hi)):
                        raise Stop('slice assignment')
                    base[lo:hi] = s
                    return
                k = self.ev(target.slice, env)
                if isinstance(k, int) and -len(base) <= k < len(base):
                    base[k] = v
                    return
                raise Stop('store index')
            if isinstance(base, tuple) and base and base[0] == 'dict':
                k = self.ev(target.slice, env)
                if isinstance(k, str):
                    base[1][k] = v
                    return
            raise Stop('store into a term: ' + ast.unparse(target)[:40])
        else:
            raise Stop('target ' + ast.unparse(target)[:40])

    def block(self, stmts, env):
        for st in stmts:
            self.steps += 1
            if self.steps > self.max_steps:
                raise Stop('step bound')
            if isinstance(st, ast.Assign):
                v = self.ev(st.value, env)
                for t in st.targets:
                    self.assign(t, v, env)
            elif isinstance(st, ast.AnnAssign):
                if st.value is not None:
                    self.assign(st.target, self.ev(st.value, env), env)
            elif isinstance(st, ast.AugAssign):
                cur = self.ev(st.target, env)
                v = self.ev(st.value, env)
                if isinstance(cur, list) and isinstance(st.op, ast.Add) and self.seq(v) is not None:
                    cur.extend(self.seq(v))          # in place, as python does
                elif isinstance(cur, int) and isinstance(v, int) and isinstance(st.op, (ast.Add, ast.Sub)):
                    self.assign(st.target, cur + v if isinstance(st.op, ast.Add) else cur - v, env)
                elif isinstance(cur, tuple) and cur and cur[0] == 'tuple' and isinstance(st.op, ast.Add) and self.seq(v) is not None:
                    self.assign(st.target, ('tuple', cur[1] + list(self.seq(v))), env)
                else:
                    self.assign(st.target, Term(ast.BinOp(left=self.term(cur), op=st.op, right=self.term(v))), env)
            elif isinstance(st, ast.Expr):
                if isinstance(st.value, ast.Constant):
                    continue
                if isinstance(st.value, ast.Call) and _dotted(st.value.func) in IGNORED_CALLS:
                    continue
                self.ev(st.value, env)
            elif isinstance(st, ast.If):
                self.block(st.body if self.test(st.test, env) else st.orelse, env)
            elif isinstance(st, ast.For):
                broke = False
                for item in self.iterate(st.iter, env):
                    self.assign(st.target, item, env)
                    try:
                        self.block(st.body, env)
                    except _Break:
                        broke = True
                        break
                    except _Continue:
                        continue
                if not broke:
                    self.block(st.orelse, env)
            elif isinstance(st, ast.While):
                n = 0
                while self.test(st.test, env):
                    n += 1
                    if n > 16:
                        raise Stop('while bound')
                    try:
                        self.block(st.body, env)
                    except _Break:
                        break
                    except _Continue:
                        continue
            elif isinstance(st, ast.Return):
                raise Return(self.ev(st.value, env) if st.value is not None else None)
            elif isinstance(st, ast.Break):
                raise _Break()
            elif isinstance(st, ast.Continue):
                raise _Continue()
            elif isinstance(st, ast.Pass):
                continue
            elif isinstance(st, ast.FunctionDef):
                env[st.name] = ('closure', st, env)
            elif isinstance(st, ast.Raise):
                raise Stop('raise reached: ' + ast.unparse(st)[:60])
            elif isinstance(st, ast.Assert):
                continue
            elif isinstance(st, (ast.Import, ast.ImportFrom, ast.Global, ast.Nonlocal)):
                continue
            elif isinstance(st, ast.Delete):
                for t in st.targets:
                    if isinstance(t, ast.Name):
                        env.pop(t.id, None)
                    else:
                        raise Stop('del ' + ast.unparse(t))
            else:
                raise Stop('statement ' + type(st).__name__)
