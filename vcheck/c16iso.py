"""R16.2 - isotropic short-cut shell kernels vs the general kernels under the
isotropic laminate substitution.

Both kernels are evaluated in the polynomial ring with
* reciprocals of non-monomial factors as canonical atoms INV(<monic factor>),
* Q := INV(1 - nu^2); INV(1 + nu) = (1 - nu) Q; nu^2 = 1 - 1/Q,
* sin/cos of known arguments reduced to a Fourier normal form (product-to-sum),
so that equal functions written with different temporaries compare equal."""
import ast
import os
from fractions import Fraction as Fr

from . import pyxast, shellk, kernel
from .poly import P, nfs, const_fraction, Unsupported, NonMonomialDivision
from .report import repo_path, REPO, AnalysisError

S, C = P.sym, P.const
PAIRS = [('compmech/conecyl/clpt/iso_clpt_donnell_bc2_linear.pyx', 'compmech/conecyl/clpt/clpt_donnell_bc2_linear.pyx'),
         ('compmech/conecyl/clpt/iso_clpt_donnell_bc3_linear.pyx', 'compmech/conecyl/clpt/clpt_donnell_bc3_linear.pyx')]
QNAME = 'INV(%s)' % nfs(C(1) - S('nu') * S('nu'))
INV1PNU = 'INV(%s)' % nfs(C(1) + S('nu'))


def iso_F():
    E_, nu_, h_, Q = S('E11'), S('nu'), S('h'), S(QNAME)
    A11 = E_ * h_ * Q
    A12 = nu_ * A11
    A66 = A11 * (C(1) - nu_) * C(Fr(1, 2))
    k = h_ * h_ * C(Fr(1, 12))
    Z = P()
    F = [[Z] * 6 for _ in range(6)]
    F[0][0] = F[1][1] = A11
    F[0][1] = F[1][0] = A12
    F[2][2] = A66
    F[3][3] = F[4][4] = A11 * k
    F[3][4] = F[4][3] = A12 * k
    F[5][5] = A66 * k
    return F


class PEval(shellk.Eval):
    """polynomial evaluation with INV atoms for non-monomial denominators"""

    def __init__(self, unit, fn, sub_hook=None):
        shellk.Eval.__init__(self, unit, fn, ring=P, sub_hook=sub_hook)
        self.den_names = set()
        for n in ast.walk(fn):
            if isinstance(n, ast.BinOp) and isinstance(n.op, ast.Div):
                for x in ast.walk(n.right):
                    if isinstance(x, ast.Name):
                        self.den_names.add(x.id)
        self.opaque = {}

    def ev(self, node):
        return self.pev(node)

    def nf(self, node):
        try:
            return nfs(self.pev(node))
        except (Unsupported, NonMonomialDivision):
            return ast.unparse(node).replace(' ', '')

    def pev(self, n):
        if isinstance(n, ast.Constant):
            return C(const_fraction(n.value))
        if isinstance(n, ast.Name):
            return self.env.get(n.id, S(n.id))
        if isinstance(n, ast.UnaryOp):
            v = self.pev(n.operand)
            return -v if isinstance(n.op, ast.USub) else v
        if isinstance(n, ast.BinOp):
            if isinstance(n.op, ast.Add):
                return self.pev(n.left) + self.pev(n.right)
            if isinstance(n.op, ast.Sub):
                return self.pev(n.left) - self.pev(n.right)
            if isinstance(n.op, ast.Mult):
                return self.pev(n.left) * self.pev(n.right)
            if isinstance(n.op, ast.Div):
                return self.pev(n.left) * self.inv(n.right)
            if isinstance(n.op, ast.Pow):
                b = self.pev(n.left)
                e = self.pev(n.right)
                if set(e.t) <= {()}:
                    ev_ = e.t.get((), Fr(0))
                    if ev_.denominator == 1:
                        return b ** int(ev_) if ev_ >= 0 else self.inv(n.left) ** int(-ev_)
                if set(b.t) <= {()}:
                    return S('(%s)**(%s)' % (nfs(b), nfs(e)))
                raise Unsupported('power ' + ast.unparse(n))
        if isinstance(n, (ast.Call, ast.Subscript, ast.Attribute)):
            v = self.leaf(n)
            if v is not None:
                return v
            return S(ast.unparse(n).replace(' ', ''))
        raise Unsupported(type(n).__name__)

    def inv(self, node):
        if isinstance(node, ast.BinOp) and isinstance(node.op, ast.Mult):
            return self.inv(node.left) * self.inv(node.right)
        if isinstance(node, ast.BinOp) and isinstance(node.op, ast.Div):
            return self.inv(node.left) * self.pev(node.right)
        if isinstance(node, ast.UnaryOp) and isinstance(node.op, ast.USub):
            return -self.inv(node.operand)
        if isinstance(node, ast.BinOp) and isinstance(node.op, ast.Pow) and isinstance(node.right, ast.Constant) and isinstance(node.right.value, int) and node.right.value > 0:
            return self.inv(node.left) ** node.right.value
        v = self.pev(node)
        return self.inv_poly(v)

    def inv_poly(self, v):
        """1/v as a polynomial over INV atoms; v is normalised by identities only:
        monomial content factored out, sign/scale made monic, difference of two
        squares split, and factors in nu alone expressed through Q = 1/(1-nu^2)"""
        if not v.t:
            raise ZeroDivisionError('division by zero polynomial')
        if len(v.t) == 1:
            return v.inv()
        # monomial content
        atoms = set.intersection(*[set(s_ for s_, e in m) for m in v.t])
        content = {}
        for a in atoms:
            e = min(dict(m)[a] for m in v.t)
            if e > 0:
                content[a] = e
        if content:
            cm = P({tuple(sorted(content.items())): Fr(1)})
            return cm.inv() * self.inv_poly(v * cm.inv())
        m0, c0 = sorted(v.t.items())[0]
        if c0 != 1:
            return self.inv_poly(v * C(1 / c0)) * C(1 / c0)
        nu, Q = S('nu'), S(QNAME)
        if v == C(1) - nu * nu:
            return Q
        if v == C(1) - nu:
            return (C(1) + nu) * Q
        if v == C(1) + nu:
            return (C(1) - nu) * Q
        # difference of two squares a^2 - b^2 -> (a-b)(a+b)
        if len(v.t) == 2:
            (ma, ca), (mb, cb) = sorted(v.t.items())
            def root(m, c):
                if c < 0 or any(e % 2 for s_, e in m):
                    return None
                num, den = c.numerator, c.denominator
                rn, rd = int(round(num ** 0.5)), int(round(den ** 0.5))
                if rn * rn != num or rd * rd != den:
                    return None
                return P({tuple((s_, e // 2) for s_, e in m): Fr(rn, rd)})
            if ca > 0 and cb < 0:
                ra, rb = root(ma, ca), root(mb, -cb)
                if ra is not None and rb is not None:
                    return self.inv_poly(ra - rb) * self.inv_poly(ra + rb)
        return S('INV(%s)' % nfs(v))

    def assign(self, t, value, st, aug):
        if isinstance(t, ast.Name) and not aug:
            try:
                v = self.pev(value)
            except (Unsupported, NonMonomialDivision, ZeroDivisionError):
                self.env.pop(t.id, None)
                return
            if t.id in self.den_names and len(v.t) > 1:
                self.opaque['$' + t.id] = v
                self.env[t.id] = S('$' + t.id)
            else:
                self.env[t.id] = v
            return
        shellk.Eval.assign(self, t, value, st, aug)


def reduce_iso(p, trig):
    """INV(1+nu) -> (1-nu) Q ; nu^2 -> 1 - 1/Q ; Fourier normal form"""
    nu, Q = S('nu'), S(QNAME)
    p = p.subs({INV1PNU: (C(1) - nu) * Q})
    for _ in range(8):
        hit = False
        out = P()
        for mono, c in p.t.items():
            d = dict(mono)
            e = d.get('nu', 0)
            if e >= 2:
                hit = True
                d['nu'] = e - 2
                if not d['nu']:
                    del d['nu']
                out = out + P({tuple(sorted(d.items())): c}) * (C(1) - Q.inv())
            else:
                out = out + P({mono: c})
        p = out
        if not hit:
            break
    return shellk.trig_normal(p, trig)


def emits_of(unit, fname, hook=None):
    fn = unit.func(fname)
    if fn is None:
        raise AnalysisError('anchor vanished: %s in %s' % (fname, unit.rel))
    coo = kernel.find_coo(fn)
    if len(coo) != 1:
        raise AnalysisError('%s.%s: coo triple not found' % (unit.rel, fname))
    varr, rarr, carr, _ = coo[0]
    ev = PEval(unit, fn, sub_hook=hook).run()
    out, lines, bad = {}, {}, []
    r = c = None
    for arr, idx, val, line, loops, guards, aug in ev.stores:
        if arr == rarr:
            r = val
        elif arr == carr:
            c = val
        elif arr == varr:
            if val is None or r is None or c is None:
                bad.append(line)
                continue
            key = (tuple(v for l in loops for v in l[0]), tuple(g for g in guards if not g.startswith('skip-if')), nfs(r), nfs(c))
            out[key] = out.get(key, P()) + val
            lines.setdefault(key, line)
    return out, lines, ev, bad


def r16_2(chk):
    Fiso = iso_F()

    def hook(name, idx):
        if name == 'F' and len(idx) == 2:
            try:
                return Fiso[int(idx[0])][int(idx[1])]
            except (ValueError, IndexError):
                return None
        return None
    ncmp = 0
    for iso_rel, gen_rel in PAIRS:
        for p in (iso_rel, gen_rel):
            if not os.path.exists(repo_path(p)):
                raise AnalysisError('anchor file missing: ' + p)
        ui = pyxast.parse(repo_path(iso_rel), REPO)
        ug = pyxast.parse(repo_path(gen_rel), REPO)
        for fname in ('fk0', 'fk0_cyl'):
            ei, li, evi, badi = emits_of(ui, fname)
            eg, lg, evg, badg = emits_of(ug, fname, hook)
            chk.ob('R16.2', not badi and not badg, iso_rel, fname, 'all emits evaluated', got={'iso': badi[:3], 'general': badg[:3]})
            # the opaque section radius must have the same definition in both kernels
            same_r = {k: (nfs(v) == nfs(evg.opaque.get(k, P()))) for k, v in evi.opaque.items()}
            chk.ob('R16.2', all(same_r.values()), iso_rel, fname, 'same section geometry', got=same_r)
            trig = dict(evi.trig)
            trig.update(evg.trig)
            for key in sorted(set(ei) | set(eg), key=str):
                vi = reduce_iso(ei.get(key, P()), trig)
                vg = reduce_iso(eg.get(key, P()), trig)
                ok = vi.close(vg)
                loops, guards, rk, ck = key
                construct = 'entry row %s col %s in loops %s %s' % (rk, ck, '/'.join(loops), ' '.join(guards))
                line = li.get(key, lg.get(key, 0))
                chk.ob('R16.2', ok, iso_rel, fname, construct[:160], line=line,
                       expected='general kernel (%s) evaluated for the isotropic laminate E h/(1-nu^2), nu E h/(1-nu^2), E h/(2(1+nu)), bending x h^2/12, no coupling' % os.path.basename(gen_rel),
                       got='differs' if key in ei else 'emitted by the general kernel, non-zero for an isotropic laminate, absent from the short-cut',
                       detail='; '.join(vi.diffterms(vg, 2))[:600],
                       sample='%s %s: %s == general under the isotropic substitution' % (os.path.basename(iso_rel), fname, construct[:80]) if ncmp % 40 == 0 else None)
                ncmp += 1
    chk.floor('R16.2 compared emits', ncmp, 150)
