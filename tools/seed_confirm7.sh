#!/bin/bash
# usage: seed_confirm3.sh <PID> <A|B> [python-only|prebuilt]   (seventh wave: agent dirs /tmp/wt/w7_<PID>, /tmp/wt/w7_<PID>_out)
set -u
pid=$1; var=$2; mode=${3:-python-only}
suf=""; [ "$var" = "B" ] && suf="_B"
out=/tmp/wt/w7_${pid}_out
dst=/verif/seeded/${pid}_w7${var}
mkdir -p $dst
cp $out/patch${suf}.diff $dst/patch.diff
cp $out/demo${suf}.py $dst/demo.py
cp $out/meta${suf}.json $dst/agent_meta.json 2>/dev/null
if [ "$mode" = "prebuilt" ]; then
  src=/tmp/wt/w7_${pid}
  (cd $src && git diff > $dst/worktree_state.diff)
  if ! diff -q $dst/worktree_state.diff $dst/patch.diff >/dev/null; then echo "WORKTREE DIFFERS FROM PATCH" > $dst/apply_error; fi
  (cd /repo && timeout 1200 /venv/bin/python $dst/demo.py > $dst/demo_pristine.log 2>&1; echo $? > $dst/demo_pristine.rc)
  (cd $src && timeout 1200 /venv/bin/python $dst/demo.py > $dst/demo_changed.log 2>&1; echo $? > $dst/demo_changed.rc)
  (cd $src && timeout 3000 /venv/bin/python -m pytest -q -p no:cacheprovider --timeout=900 --continue-on-collection-errors compmech > $dst/suite_changed.log 2>&1)
else
  wt=/tmp/wt/confirm7_${pid}${var}
  git -C /repo worktree remove --force $wt >/dev/null 2>&1
  /verif/tools/mkwt.sh confirm7_${pid}${var} >/dev/null
  (cd $wt && timeout 1200 /venv/bin/python $dst/demo.py > $dst/demo_pristine.log 2>&1; echo $? > $dst/demo_pristine.rc)
  (cd $wt && git apply $dst/patch.diff) || echo "PATCH DOES NOT APPLY" > $dst/apply_error
  (cd $wt && timeout 1200 /venv/bin/python $dst/demo.py > $dst/demo_changed.log 2>&1; echo $? > $dst/demo_changed.rc)
  (cd $wt && timeout 3000 /venv/bin/python -m pytest -q -p no:cacheprovider --timeout=900 --continue-on-collection-errors compmech > $dst/suite_changed.log 2>&1)
  git -C /repo worktree remove --force $wt >/dev/null 2>&1
fi
echo "${pid}_w7${var} pristine_rc=$(cat $dst/demo_pristine.rc) changed_rc=$(cat $dst/demo_changed.rc) $(cat $dst/apply_error 2>/dev/null) suite: $(tail -1 $dst/suite_changed.log)"
