#!/usr/bin/env python3
"""maintenance helper (never used by a check): list the violations of the last
run, or add one of them to known_findings.json after manual triage.

  tools/triage.py list C19
  tools/triage.py add C19-001 F-C19-1 "what fails" "how it was confirmed"
"""
import json, os, sys
V = os.path.dirname(os.path.dirname(os.path.abspath(__file__)))
kf = os.path.join(V, 'known_findings.json')
if sys.argv[1] == 'list':
    for f in sorted(os.listdir(os.path.join(V, 'evidence', 'replay'))):
        if f.startswith(sys.argv[2]):
            r = json.load(open(os.path.join(V, 'evidence', 'replay', f)))
            print(f[:-5], r['key'])
elif sys.argv[1] == 'add':
    r = json.load(open(os.path.join(V, 'evidence', 'replay', sys.argv[2] + '.json')))
    data = json.load(open(kf))
    if any(e['key'] == r['key'] for e in data['known']):
        print('already listed'); sys.exit(0)
    data['known'].append({'key': r['key'], 'property': r['property'], 'finding': sys.argv[3],
                          'what': sys.argv[4], 'how_confirmed': sys.argv[5] if len(sys.argv) > 5 else ''})
    json.dump(data, open(kf, 'w'), indent=1)
    print('added', r['key'])
