#!/usr/bin/env python3
"""write selftest/refactors/STATUS.json from a check-by-refactoring matrix (tools/seed_matrix.py --src selftest/refactors --out M.json):
for each refactoring, the properties to replay (its own, every property that reported it on the first run, every property that
reports it now) with verdict 'silent' or 'limitation'"""
import json, os, sys
VERIF = os.path.dirname(os.path.dirname(os.path.abspath(__file__)))
rd = os.path.join(VERIF, 'selftest', 'refactors')
now = json.load(open(sys.argv[1]))
first = json.load(open(os.path.join(rd, 'FIRST_RUN.json')))
status = {}
for rid in sorted(d for d in os.listdir(rd) if os.path.isdir(os.path.join(rd, d))):
    own = rid.split('_')[0]
    props = {own} | set(first.get(rid, {})) | set(now.get(rid, {}))
    props.discard('error')
    cur = now.get(rid, {})
    status[rid] = {'replay': {p: ('limitation' if p in cur else 'silent') for p in sorted(props)},
                   'reported_on_first_run': {p: v.get('rules') for p, v in first.get(rid, {}).items() if isinstance(v, dict)},
                   'reported_now': {p: v.get('rules') for p, v in cur.items() if isinstance(v, dict)}}
json.dump(status, open(os.path.join(rd, 'STATUS.json'), 'w'), indent=1, sort_keys=True)
n = len(status); s = sum(1 for v in status.values() if not v['reported_now'])
print('%d refactorings, %d silent under every check, %d with a known false alarm / analysis error' % (n, s, n - s))
