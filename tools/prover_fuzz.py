#!/usr/bin/env python3
"""mutation test of the translation validator (vcheck/equiv.py): every function of the confirmed sources (vcheck/reference/*.ref) is
mutated with operators that change behaviour (constant +1, two call arguments swapped, `self.a` read replaced by another attribute read
in the same function, an if test negated, a store / call statement deleted, += turned into -=) and the prover is asked whether the mutant
is equivalent to the original.  Every PROVED answer is printed for manual triage: it is either an equivalent mutant (dead code, symmetric
call) or a soundness bug of a normalisation pass.  Usage: tools/prover_fuzz.py [--jobs N] [--seed S] [--per-function K] [file-substring]"""
import ast, copy, os, random, sys, json
from concurrent.futures import ProcessPoolExecutor
VERIF = os.path.dirname(os.path.dirname(os.path.abspath(__file__)))
sys.path.insert(0, VERIF)
sys.setrecursionlimit(20000)
REFDIR = os.path.join(VERIF, 'vcheck', 'reference')


def ref_files():
    out = []
    for root, _, files in os.walk(REFDIR):
        for f in files:
            if f.endswith('.py.ref'):
                out.append(os.path.relpath(os.path.join(root, f), REFDIR)[:-4])
    return sorted(out)


def functions(tree):
    for st in tree.body:
        if isinstance(st, ast.FunctionDef):
            yield None, st
        elif isinstance(st, ast.ClassDef):
            for m in st.body:
                if isinstance(m, ast.FunctionDef):
                    yield st.name, m


def mutants(fn, rng, k):
    """-> list of (description, mutated copy)"""
    sites = []
    nodes = list(ast.walk(fn))
    for i, n in enumerate(nodes):
        if isinstance(n, ast.Constant) and isinstance(n.value, (int, float)) and not isinstance(n.value, bool):
            sites.append(('const+1', i))
        if isinstance(n, ast.Call) and len(n.args) >= 2 and not any(isinstance(a, ast.Starred) for a in n.args) and ast.dump(n.args[0]) != ast.dump(n.args[1]):
            sites.append(('swap-args', i))
        if isinstance(n, ast.If):
            sites.append(('negate-if', i))
        if isinstance(n, ast.AugAssign) and isinstance(n.op, ast.Add):
            sites.append(('aug-sign', i))
        if isinstance(n, ast.Attribute) and isinstance(n.ctx, ast.Load) and isinstance(n.value, ast.Name) and n.value.id == 'self':
            sites.append(('attr-swap', i))
        if isinstance(n, ast.Call) and n.keywords and len(n.keywords) >= 2 and all(k_.arg for k_ in n.keywords) and ast.dump(n.keywords[0].value) != ast.dump(n.keywords[1].value):
            sites.append(('swap-kwvalues', i))
    # statement deletion
    blocks = []
    for n in nodes:
        for f in ('body', 'orelse', 'finalbody'):
            b = getattr(n, f, None)
            if isinstance(b, list) and len(b) >= 2 and isinstance(b[0], ast.stmt):
                for j, st in enumerate(b):
                    if isinstance(st, (ast.Assign, ast.AugAssign)) or (isinstance(st, ast.Expr) and isinstance(st.value, ast.Call) and
                                                                      not (isinstance(st.value.func, ast.Name) and st.value.func.id in ('msg', 'log', 'warn', 'print'))):
                        blocks.append((nodes.index(n), f, j))
    for b in blocks:
        sites.append(('delete-stmt', b))
    rng.shuffle(sites)
    out = []
    attrs = sorted({n.attr for n in nodes if isinstance(n, ast.Attribute) and isinstance(n.ctx, ast.Load) and isinstance(n.value, ast.Name) and n.value.id == 'self'})
    for kind, where in sites[:k]:
        m = copy.deepcopy(fn)
        mn = list(ast.walk(m))
        try:
            if kind == 'const+1':
                mn[where].value = mn[where].value + 1
                par = [x for x in nodes if any(c is nodes[where] for c in ast.iter_child_nodes(x))]
                par2 = [x for x in nodes if par and any(c is par[0] for c in ast.iter_child_nodes(x))]
                ctx = ast.unparse(par2[0] if par2 and not isinstance(par2[0], (ast.FunctionDef, ast.For, ast.If, ast.While, ast.Try)) else par[0])[:70] if par else ''
                desc = 'constant %r -> %r in %s (line %d)' % (nodes[where].value, mn[where].value, ctx, getattr(nodes[where], 'lineno', 0))
            elif kind == 'swap-args':
                mn[where].args[0], mn[where].args[1] = mn[where].args[1], mn[where].args[0]
                desc = 'first two arguments swapped in ' + ast.unparse(nodes[where])[:60]
            elif kind == 'swap-kwvalues':
                a, b = mn[where].keywords[0], mn[where].keywords[1]
                a.value, b.value = b.value, a.value
                desc = 'values of the first two keywords swapped in ' + ast.unparse(nodes[where])[:60]
            elif kind == 'negate-if':
                mn[where].test = ast.UnaryOp(op=ast.Not(), operand=mn[where].test)
                desc = 'test negated: if ' + ast.unparse(nodes[where].test)[:60]
            elif kind == 'aug-sign':
                mn[where].op = ast.Sub()
                desc = '+= -> -= in ' + ast.unparse(nodes[where])[:60]
            elif kind == 'attr-swap':
                others = [a for a in attrs if a != mn[where].attr]
                if not others:
                    continue
                new = rng.choice(others)
                desc = 'self.%s -> self.%s (line %d)' % (mn[where].attr, new, getattr(nodes[where], 'lineno', 0))
                mn[where].attr = new
            elif kind == 'delete-stmt':
                ni, f, j = where
                blk = getattr(mn[ni], f)
                desc = 'statement deleted: ' + ast.unparse(blk[j])[:70]
                del blk[j]
            ast.fix_missing_locations(m)
            out.append((kind + ': ' + desc, m))
        except Exception:
            continue
    return out


def work(args):
    rel, seed, per = args
    from vcheck import equiv, inline, pyflow
    src = open(os.path.join(REFDIR, rel + '.ref'), encoding='utf-8', errors='replace').read()
    tree = ast.parse(src)
    funcs = {st.name: st for st in tree.body if isinstance(st, ast.FunctionDef)}
    classes = {st.name: {m.name: m for m in st.body if isinstance(m, ast.FunctionDef)} for st in tree.body if isinstance(st, ast.ClassDef)}
    extra = pyflow.equiv_global_sigs()
    res = []
    n = 0
    rng = random.Random(seed)
    for cls, fn in functions(tree):
        if fn.name.startswith('__'):
            continue
        for desc, m in mutants(fn, rng, per):
            # the mutated module
            t2 = copy.deepcopy(tree)
            for st in t2.body:
                if cls is None and isinstance(st, ast.FunctionDef) and st.name == fn.name:
                    t2.body[t2.body.index(st)] = m
                elif cls is not None and isinstance(st, ast.ClassDef) and st.name == cls:
                    for mm in st.body:
                        if isinstance(mm, ast.FunctionDef) and mm.name == fn.name:
                            st.body[st.body.index(mm)] = m
            f2 = {st.name: st for st in t2.body if isinstance(st, ast.FunctionDef)}
            c2 = {st.name: {x.name: x for x in st.body if isinstance(x, ast.FunctionDef)} for st in t2.body if isinstance(st, ast.ClassDef)}
            try:
                cur_exp, ref_exp = inline.Expander(t2, rel), inline.Expander(tree, rel)
                cs = equiv.build_sigdb(f2, c2, cls, extra)
                rs = equiv.build_sigdb(funcs, classes, cls, extra)
                for tr_, sg_ in ((t2, cs), (tree, rs)):
                    for nm_, val_ in pyflow.module_constants(tr_).items():
                        sg_[('modconst', nm_)] = val_
                if cls and ('rebuild', cls) in cs:
                    cs[('rebuild', cls)] = cur_exp.expand(cs[('rebuild', cls)], cls=cls)
                ok, ta, tb = equiv.equivalent(m, fn, cur_exp, ref_exp, cls, cs, rs)
            except Exception as e:
                ok = False
            n += 1
            if ok:
                res.append((rel, (cls + '.' if cls else '') + fn.name, desc))
    return rel, n, res


def main():
    jobs, seed, per, sub = 8, 1, 4, None
    a = sys.argv[1:]
    while a:
        x = a.pop(0)
        if x == '--jobs':
            jobs = int(a.pop(0))
        elif x == '--seed':
            seed = int(a.pop(0))
        elif x == '--per-function':
            per = int(a.pop(0))
        else:
            sub = x
    files = [f for f in ref_files() if sub is None or sub in f]
    total, proved = 0, []
    with ProcessPoolExecutor(max_workers=jobs) as ex:
        for rel, n, res in ex.map(work, [(f, seed, per) for f in files]):
            total += n
            proved += res
            print('%-55s %4d mutants, %d proved equivalent' % (rel, n, len(res)), flush=True)
    for rel, q, desc in proved:
        print('PROVED-EQUIVALENT %s %s :: %s' % (rel, q, desc))
    print(json.dumps({'mutants': total, 'proved_equivalent': len(proved)}))


if __name__ == '__main__':
    main()
