#!/usr/bin/env python3
"""write seeded/<id>/meta.json for the fourth wave from the agent's own meta, my confirmation logs and
the check-by-seed matrix (tools/seed_matrix.py --only <prefix> output given as JSON on argv[1])"""
import json
import os
import sys

VERIF = os.path.dirname(os.path.dirname(os.path.abspath(__file__)))
SD = os.path.join(VERIF, 'seeded')

# what the checks reported when the fourth wave came back (before any rule was added), from the first matrix run
FIRST = {
    'C01_w4A': {'C01': ['R01.3']}, 'C01_w4B': {'C01': ['R01.1']}, 'C05_w4A': {}, 'C05_w4B': {}, 'C06_w4A': {},
    'C07_w4A': {'C07': ['R07.5']}, 'C07_w4B': {'C13': ['R13.2']}, 'C08_w4A': {'C08': ['R08.7']}, 'C08_w4B': {},
    'C09_w4A': {'C09': ['R09.2']}, 'C09_w4B': {'C09': ['R09.1']}, 'C11_w4A': {'C11': ['R11.6']}, 'C11_w4B': {},
    'C13_w4A': {'C12': ['R12.3']}, 'C13_w4B': {'C13': ['R13.2']}, 'C16_w4A': {'C16': ['R16.3']}, 'C16_w4B': {},
    'C17_w4A': {}, 'C17_w4B': {'C16': ['R16.7'], 'C17': ['R17.5']}, 'C18_w4A': {'C18': ['R18.5']}, 'C18_w4B': {},
    'C20_w4A': {'C08': ['R08.8'], 'C13': ['R13.1', 'R13.5']}, 'C20_w4B': {'C20': ['R20.1']},
}
ADDED = {
    'C05_w4A': 'missed at first; R05.7 added (a default reference load is taken only when no alternative definition of that load was supplied)',
    'C05_w4B': 'missed at first; R05.6 added (documented combined-load-case table decides the pencil; each kG0_<load> built from that load alone)',
    'C06_w4A': 'missed at first; the shared remove_null_cols rule gained "each reduced matrix is built from its own argument" (R05.2/R06.2/R07.5)',
    'C07_w4B': 'reported at first by R13.2 only because the concatenation idiom had disappeared (a correct rewrite would have been reported too: false alarm in waiting); '
               'R13.2 now understands the pre-allocated-vector / running-offset idiom and reports the offset advanced inside the loop over forces; the corrected rewrite is a silent selftest variant',
    'C08_w4B': 'missed at first; R08.10 added (the matrix edited in place by _get_lam_F is the laminate\'s own array, the one the analytic kernels read)',
    'C11_w4B': 'missed at first; R11.6 gained "the offset accumulates the sizes of the preceding stiffeners"',
    'C13_w4A': 'reported at first by C12 (R12.3) only; the connection-cache rule (R08.8/R13.5/R20.7) now also checks that get_k0_conn stores the finalized matrix',
    'C16_w4B': 'missed at first; R16.8 added (isotropic laminate matrix built by ConeCyl._rebuild == isotropic plate matrix, 36 entries as rational functions)',
    'C17_w4A': 'missed at first; load-level forwarding rule added (R17.1 for calc_kT/_calc_NL_matrices/calc_fint, R18.6 for the field outputs)',
    'C18_w4B': 'missed at first; R18.6 derive-order rule added (a derived quantity of _rebuild is assigned before any statement of the routine reads it)',
    'C20_w4A': 'reported at first by C08 (R08.8) and C13 (R13.1, R13.5); the same cache rule now also runs under C20 as R20.7',
}


def main():
    matrix = json.load(open(sys.argv[1]))
    for sid in sorted(FIRST):
        d = os.path.join(SD, sid)
        if not os.path.isdir(d):
            print('missing', sid)
            continue
        am = {}
        try:
            am = json.load(open(os.path.join(d, 'agent_meta.json')))
        except Exception:
            pass
        rc = lambda f: int(open(os.path.join(d, f)).read().strip()) if os.path.exists(os.path.join(d, f)) else None
        suite = open(os.path.join(d, 'suite_changed.log')).read().strip().split('\n')[-1] if os.path.exists(os.path.join(d, 'suite_changed.log')) else None
        res = matrix.get(sid, {})
        kernel = os.path.exists(os.path.join(d, 'generated_c.diff'))
        meta = {
            'id': sid, 'property': sid[:3], 'variant': sid[-1], 'wave': 4,
            'author': 'independent sub-agent given only the property text, the list of code sites earlier experiments had used, and its own scratch worktree; nothing from /verif',
            'base_commit': '022ae61 (agent) / ace62d5 (my confirmation and the static runs)',
            'clause_broken': am.get('clause_broken'), 'files_changed': am.get('files_changed'),
            'what_it_needs_to_manifest': am.get('what_it_needs_to_manifest'), 'why_existing_tests_miss_it': am.get('why_existing_tests_miss_it'),
            'confirmed_by_me': {
                'how': ('kernel: fresh scratch worktree, .pyx patch applied, my own equivalent edit of the Cython-generated C (generated_c.diff), gcc rebuild, demo, full pinned suite'
                        if kernel else 'python-only: fresh scratch worktree (built extensions copied in), demo on pristine, git apply patch.diff, demo again, full pinned suite'),
                'demo_on_pristine_rc': rc('demo_pristine.rc'), 'demo_with_change_rc': rc('demo_changed.rc'), 'suite_with_change': suite},
            'caught_by': sorted(res), 'rules_reporting': {p: v['rules'] for p, v in sorted(res.items())},
            'reported_as_the_checks_stood': FIRST[sid],
            'static_run': 'tools/seed_matrix.py on the final tree',
            'history': ADDED.get(sid, 'reported from the start'),
        }
        json.dump(meta, open(os.path.join(d, 'meta.json'), 'w'), indent=1)
        ok = meta['confirmed_by_me']['demo_on_pristine_rc'] == 0 and meta['confirmed_by_me']['demo_with_change_rc'] not in (0, None) and suite and '34 passed' in suite and res and 'error' not in res
        print(sid, 'OK' if ok else 'CHECK', sorted(res))


if __name__ == '__main__':
    main()
