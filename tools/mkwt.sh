#!/bin/bash
# create a scratch git worktree of /repo at /tmp/wt/<name> with the built
# extension modules (.so) and the cython-generated .c files copied in
set -e
name=$1
mkdir -p /tmp/wt
git -C /repo worktree add --detach /tmp/wt/$name HEAD >/dev/null 2>&1
cd /repo
find compmech -name "*.so" -o -name "*.c" -not -path "*/lib/src/*" | while read f; do
  if [ ! -e /tmp/wt/$name/$f ]; then cp -p $f /tmp/wt/$name/$f; fi
done
cp -p compmech/version.py /tmp/wt/$name/compmech/ 2>/dev/null || true
echo /tmp/wt/$name
