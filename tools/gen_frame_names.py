#!/usr/bin/env python3
"""freeze the names of the opaque frame scalars ('$name': non-monomial geometry kept symbolic by the kernel walker) that exist on
today's tree -> vcheck/frame_names.json.  A scalar with another name (a loop invariant hoisted by a later refactoring) is
substituted by its definition instead of being kept opaque."""
import json, os, sys
VERIF = os.path.dirname(os.path.dirname(os.path.abspath(__file__)))
sys.path.insert(0, VERIF)
os.environ['VERIF_FRAME_ALL'] = '1'
from vcheck import pyxast, kernel
from vcheck.report import repo_path, REPO
names = set()
for rel in sorted(pyxast.built_sources(REPO)):
    if not rel.endswith(('.pyx', '.pxi')):
        continue
    try:
        u = pyxast.parse(repo_path(rel), REPO)
    except Exception:
        continue
    for fname, fn in u.funcs.items():
        try:
            w = kernel.Walker(u, fn).run()
        except Exception:
            continue
        for e in w.emits:
            names |= {k[1:] for k in (e.frame or {})}
        names |= {k[1:] for k in w.frame}
        for lst in w.accum.values():
            for rec in lst:
                names |= {k[1:] for k in rec[4]}
json.dump(sorted(names), open(os.path.join(VERIF, 'vcheck', 'frame_names.json'), 'w'), indent=0)
print(len(names), 'frame names')
