#!/bin/bash
# usage: seed_eval.sh <patchfile> <label>   -> runs every check with the patch applied to /repo, then reverts
patch=$1; label=$2
cd /repo
if [ -n "$(git status --porcelain --untracked-files=no)" ]; then echo "REPO NOT CLEAN"; exit 3; fi
if ! git apply "$patch" 2>/dev/null; then
  if ! patch -p1 -s --no-backup-if-mismatch < "$patch"; then echo "PATCH FAILED $label"; git checkout -- .; exit 4; fi
fi
cd /verif
res=""
for p in C01 C02 C03 C04 C05 C06 C07 C08 C09 C10 C11 C12 C13 C14 C16 C17 C18 C19 C20; do
  out=$(./check $p 2>&1); rc=$?
  if [ $rc -ne 0 ]; then
    res="$res $p(rc=$rc)"
    echo "--- $label: $p rc=$rc"; echo "$out" | grep -v "^VIOLATION\|^KNOWN" | head -4 | cut -c1-330
  fi
done
echo "=== $label caught_by:${res:- NONE}"
git -C /repo checkout -- .
cd /verif && git checkout -- evidence 2>/dev/null
