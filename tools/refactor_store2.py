#!/usr/bin/env python3
"""store the second (unseen) battery of behaviour-preserving refactorings: <stage>/<PID>_s<k>/patch.diff + the authoring sub-agent's
meta (out dir /tmp/wt/r2_<PID>_out/meta.json) -> selftest/refactors/<PID>_s<k>/{patch.diff, meta.json}; the first-run check results
(matrix json given as 2nd argument) are merged into selftest/refactors/FIRST_RUN.json"""
import json, os, shutil, subprocess, sys
VERIF = os.path.dirname(os.path.dirname(os.path.abspath(__file__)))
stage, first = sys.argv[1], json.load(open(sys.argv[2]))
letter = sys.argv[3] if len(sys.argv) > 3 else 's'
battery = {'s': 2, 't': 3}.get(letter, 2)
rd = os.path.join(VERIF, 'selftest', 'refactors')
head = subprocess.run(['git', '-C', '/repo', 'rev-parse', '--short', 'HEAD'], capture_output=True, text=True).stdout.strip()
for rid in sorted(os.listdir(stage)):
    pid, k = rid.split('_' + letter)
    dst = os.path.join(rd, rid)
    os.makedirs(dst, exist_ok=True)
    shutil.copy(os.path.join(stage, rid, 'patch.diff'), os.path.join(dst, 'patch.diff'))
    am = {}
    mp = '/tmp/wt/r%d_%s_out/meta.json' % (battery, pid)
    if os.path.exists(mp):
        try:
            am = json.load(open(mp))
        except Exception as e:
            am = {'unparsed': open(mp, errors='replace').read()[:4000]}
    entry = am
    if isinstance(am, dict) and isinstance(am.get('refactorings'), list):
        hit = [r for r in am['refactorings'] if isinstance(r, dict) and str(r.get('file', '')).endswith('refactor_%s.diff' % k)]
        entry = dict(hit[0]) if hit else {}
        for key in ('equivalence_driver', 'property', 'suite', 'suite_result', 'notes'):
            if key in am and key not in entry:
                entry[key] = am[key]
    elif isinstance(am, list):
        hit = [r for r in am if isinstance(r, dict) and str(r.get('file', r.get('patch', ''))).endswith('refactor_%s.diff' % k)]
        entry = hit[0] if hit else {'all': am}
    meta = {'id': rid, 'property': pid, 'battery': battery,
            'author': 'independent sub-agent given the property text and its anchors, asked for behaviour-preserving refactorings of kinds other than renaming / reordering; nothing from /verif. '
                      'Written after the checks had been hardened on the earlier batteries (*_r* = battery 1, *_s* = battery 2, *_t* = battery 3): the first-run result of each battery (FIRST_RUN.json) measures how the checks generalise to refactorings they were not tuned on',
            'base_commit': head, 'agent_meta': entry}
    json.dump(meta, open(os.path.join(dst, 'meta.json'), 'w'), indent=1)
fp = os.path.join(rd, 'FIRST_RUN.json')
fr = json.load(open(fp))
for rid in os.listdir(stage):
    fr[rid] = first.get(rid, {})
json.dump(fr, open(fp, 'w'), indent=1, sort_keys=True)
print(len(os.listdir(stage)), 'stored;', sum(1 for r in os.listdir(stage) if not first.get(r)), 'were silent on the first run')
