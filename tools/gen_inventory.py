#!/usr/bin/env python3
"""freeze the names of the functions and methods that exist on /repo's tree today (vcheck/inventory.json).
vcheck/inline.py inlines calls to helpers that are NOT in this inventory (helpers extracted by a later refactoring)."""
import ast, json, os, subprocess, sys
REPO = os.environ.get('VERIF_REPO', '/repo')
VERIF = os.path.dirname(os.path.dirname(os.path.abspath(__file__)))
files = [f for f in subprocess.check_output(['git', '-C', REPO, 'ls-files'], text=True).split('\n') if f.endswith('.py') and (f.startswith('compmech/') or f.startswith('theory/func/bardell'))]
inv = {}
for f in sorted(files):
    try:
        tree = ast.parse(open(os.path.join(REPO, f), encoding='utf-8', errors='replace').read())
    except SyntaxError:
        continue
    nested = {}
    for st in tree.body:
        outs = [st] if isinstance(st, ast.FunctionDef) else [m for m in st.body if isinstance(m, ast.FunctionDef)] if isinstance(st, ast.ClassDef) else []
        for o in outs:
            inner = sorted(c.name for c in o.body if isinstance(c, ast.FunctionDef))
            if inner:
                nested[(st.name + '.' if isinstance(st, ast.ClassDef) else '') + o.name] = inner
    inv[f] = {'nested': nested, 'functions': sorted(st.name for st in tree.body if isinstance(st, ast.FunctionDef)),
              'classes': {st.name: sorted(m.name for m in st.body if isinstance(m, ast.FunctionDef)) for st in tree.body if isinstance(st, ast.ClassDef)}}
json.dump(inv, open(os.path.join(VERIF, 'vcheck', 'inventory.json'), 'w'), indent=0, sort_keys=True)
print(len(inv), 'files', sum(len(v['functions']) + sum(len(m) for m in v['classes'].values()) for v in inv.values()), 'names')
