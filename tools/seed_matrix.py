#!/usr/bin/env python3
"""Run every check against every seeded change (seeded/<id>/patch.diff), each in a
scratch copy of /repo's analysed sources (never /repo itself), and write
seeded/MATRIX.json: which checks report which change.

usage: tools/seed_matrix.py [--jobs N] [--only ID_PREFIX] [--src DIR] [--out FILE.json]   (DIR: take <id>/patch.diff from DIR instead of seeded/)
"""
import json
import re
import os
import shutil
import subprocess
import sys
import tempfile
from concurrent.futures import ThreadPoolExecutor

VERIF = os.path.dirname(os.path.dirname(os.path.abspath(__file__)))
sys.path.insert(0, os.path.join(VERIF, 'selftest'))
import run as st  # noqa: E402

PROPS = sorted(f[:-3].upper() for f in os.listdir(os.path.join(VERIF, 'vcheck')) if f[0] == 'c' and f[1:3].isdigit() and f.endswith('.py') and len(f) == 6)


def one(args):
    sid, patch = args
    tmp = tempfile.mkdtemp(prefix='vsm_')
    try:
        tree = os.path.join(tmp, 'repo')
        os.makedirs(tree)
        st.make_tree(tree)
        ptxt = open(patch).read()
        for line in ptxt.split('\n'):
            if line.startswith('+++ b/'):
                f = os.path.join(tree, line[6:].strip())
                if os.path.exists(f):
                    data = open(f, 'rb').read()
                    os.remove(f)
                    open(f, 'wb').write(data)
        pr = subprocess.run(['patch', '-p1', '-s', '--no-backup-if-mismatch', '-d', tree], input=ptxt, text=True, capture_output=True)
        if pr.returncode != 0:
            return sid, {'error': 'patch does not apply: ' + (pr.stdout + pr.stderr)[:200]}
        res = {}
        for p in PROPS:
            env = dict(os.environ, VERIF_REPO=tree, VERIF_EVIDENCE_DIR=os.path.join(tmp, 'ev'), VERIF_NO_SELFTEST='1')
            q = subprocess.run([os.path.join(VERIF, 'check'), p], capture_output=True, text=True, env=env, cwd=VERIF, timeout=1800)
            if q.returncode != 0:
                out = q.stdout + q.stderr
                rules = sorted(set(re.findall(r' rule (R\d+\.\d+)', out)))
                first = next((l for l in out.split('\n') if ' rule ' in l), out[-200:])[:300]
                res[p] = {'rc': q.returncode, 'rules': rules, 'first': first}
        return sid, res
    finally:
        shutil.rmtree(tmp, ignore_errors=True)


def main(argv):
    jobs, only, src, outf = 8, None, os.path.join(VERIF, 'seeded'), None
    i = 0
    while i < len(argv):
        if argv[i] == '--jobs':
            jobs = int(argv[i + 1]); i += 2
        elif argv[i] == '--only':
            only = argv[i + 1]; i += 2
        elif argv[i] == '--src':
            src = argv[i + 1]; i += 2
        elif argv[i] == '--out':
            outf = argv[i + 1]; i += 2
        else:
            i += 1
    work = []
    for d in sorted(os.listdir(src)):
        p = os.path.join(src, d, 'patch.diff')
        if os.path.exists(p) and (not only or d.startswith(only)):
            work.append((d, p))
    with ThreadPoolExecutor(max_workers=jobs) as ex:
        res = dict(ex.map(one, work))
    for sid in sorted(res):
        r = res[sid]
        print('%-8s %s' % (sid, 'ERROR ' + r['error'] if 'error' in r else ' '.join('%s[%s]' % (p, ','.join(v['rules'])) for p, v in sorted(r.items())) or 'NONE'))
    if outf:
        json.dump(res, open(outf, 'w'), indent=1, sort_keys=True)
    if not only and src == os.path.join(VERIF, 'seeded'):
        json.dump(res, open(os.path.join(src, 'MATRIX.json'), 'w'), indent=1, sort_keys=True)
    return 0


if __name__ == '__main__':
    sys.exit(main(sys.argv[1:]))
