#!/bin/bash
# stage the behaviour-preserving refactorings written by the r1 sub-agents: /tmp/wt/r1_<PID>_out/refactor_k.diff -> <dst>/<PID>_rk/patch.diff
dst=$1; shift
mkdir -p $dst
for pid in "$@"; do
  for f in /tmp/wt/r1_${pid}_out/refactor_*.diff; do
    [ -f "$f" ] || continue
    k=$(basename $f .diff | sed 's/refactor_//')
    mkdir -p $dst/${pid}_r$k
    cp $f $dst/${pid}_r$k/patch.diff
  done
done
ls $dst
