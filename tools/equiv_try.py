#!/usr/bin/env python3
"""tools/equiv_try.py SRC_DIR ID [-v]: apply a staged patch to a scratch copy and say, for every changed Python function,
whether vcheck/equiv.py proves it equivalent to the reference version (with -v: diff of the two normal forms)"""
import difflib, os, subprocess, sys, tempfile, shutil
VERIF = os.path.dirname(os.path.dirname(os.path.abspath(__file__)))
sys.path.insert(0, os.path.join(VERIF, 'selftest'))
import run as st
src, sid = sys.argv[1], sys.argv[2]
tmp = tempfile.mkdtemp(prefix='veq_')
try:
    tree = os.path.join(tmp, 'repo'); os.makedirs(tree); st.make_tree(tree)
    ptxt = open(os.path.join(src, sid, 'patch.diff')).read()
    rels = []
    for line in ptxt.split('\n'):
        if line.startswith('+++ b/'):
            rels.append(line[6:].strip())
            f = os.path.join(tree, line[6:].strip())
            if os.path.exists(f):
                data = open(f, 'rb').read(); os.remove(f); open(f, 'wb').write(data)
    pr = subprocess.run(['patch', '-p1', '-s', '--no-backup-if-mismatch', '-d', tree], input=ptxt, text=True, capture_output=True)
    os.environ['VERIF_REPO'] = tree
    sys.path.insert(0, VERIF)
    from vcheck.pyflow import module
    for rel in rels:
        if not rel.endswith('.py'):
            print(sid, rel, '(not python)'); continue
        m = module(rel)
        print(sid, rel, 'inlined', m.inlined, 'error', getattr(m, 'equiv_error', None), getattr(m, 'inline_error', None))
        for q in m.substituted:
            print('   PROVED  ', q)
        for q, (ta, tb) in m.unproved.items():
            print('   UNPROVED', q)
            if '-v' in sys.argv and ta:
                for l in difflib.unified_diff(tb.split('\n'), ta.split('\n'), 'reference', 'current', lineterm='', n=2):
                    print("      ", l[:int(os.environ.get("W","230"))])
finally:
    shutil.rmtree(tmp, ignore_errors=True)
