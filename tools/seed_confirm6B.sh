#!/bin/bash
# usage: seed_confirm6B.sh <PID> <built .so of variant B> <relative path of the module's .so>
# variant B of the sixth wave (kernel change): agent worktree /tmp/wt/w6_<PID> is reset, patch_B applied, the agent's rebuilt module copied in
set -u
pid=$1; so=$2; rel=$3
out=/tmp/wt/w6_${pid}_out; src=/tmp/wt/w6_${pid}; dst=/verif/seeded/${pid}_w6B
mkdir -p $dst
cp $out/patch_B.diff $dst/patch.diff; cp $out/demo_B.py $dst/demo.py; cp $out/meta_B.json $dst/agent_meta.json
(cd $src && git checkout -- . && git apply $dst/patch.diff) || echo "PATCH DOES NOT APPLY" > $dst/apply_error
cp -p $src/$rel /tmp/wt/w6_${pid}_pristine.so
cp -p $so $src/$rel
(cd /repo && timeout 1200 /venv/bin/python $dst/demo.py > $dst/demo_pristine.log 2>&1; echo $? > $dst/demo_pristine.rc)
(cd $src && timeout 1200 /venv/bin/python $dst/demo.py > $dst/demo_changed.log 2>&1; echo $? > $dst/demo_changed.rc)
(cd $src && timeout 3000 /venv/bin/python -m pytest -q -p no:cacheprovider --timeout=900 --continue-on-collection-errors compmech > $dst/suite_changed.log 2>&1)
echo "${pid}_w6B pristine_rc=$(cat $dst/demo_pristine.rc) changed_rc=$(cat $dst/demo_changed.rc) $(cat $dst/apply_error 2>/dev/null) suite: $(tail -1 $dst/suite_changed.log)"
