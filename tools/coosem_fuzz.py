#!/venv/bin/python
"""Mutation test of vcheck/coosem.py itself (not a check; run by hand with /venv/bin/python, needs numpy + scipy).

Every single-token / single-statement mutant of make_symmetric and make_skew_symmetric (comparison operators changed, two
names swapped, a unary minus added or dropped, a statement deleted or duplicated, `+ pos` dropped, plus the same mutations
applied to the slice-view and shared-helper spellings of the refactoring batteries) is
  (a) decided by coosem.contributions (MATCH / DIFF / UNSUPPORTED), and
  (b) executed on random COO matrices (duplicates, explicit zeros, entries below the diagonal) and compared with the
      reference function of /repo.
Soundness of the interpreter: MATCH  =>  equal on every sample.  Anything else is printed.
DIFF on a mutant that is equal on every sample is a false alarm of the domain and is listed too.
"""
import ast
import copy
import os
import sys

import numpy as np
from scipy.sparse import coo_matrix

VERIF = os.path.dirname(os.path.dirname(os.path.abspath(__file__)))
sys.path.insert(0, VERIF)
from vcheck import coosem  # noqa: E402

REPO = os.environ.get('VERIF_REPO', '/repo')
SRC = open(os.path.join(REPO, 'compmech/sparse.py')).read()

VIEW = '''
def make_symmetric(m):
    if m.shape[0] != m.shape[1]:
        raise ValueError('m must be a square matrix')
    if not isinstance(m, coo_matrix):
        m = coo_matrix(m)
    r, c, v = m.row, m.col, m.data
    triu = c >= r
    r = r[triu]
    c = c[triu]
    v = v[triu]
    pos = r.shape[0]
    r = np.concatenate((r, r*0))
    c = np.concatenate((c, c*0))
    v = np.concatenate((v, v*0))
    r_up, r_low = r[:pos], r[pos:]
    c_up, c_low = c[:pos], c[pos:]
    v_up, v_low = v[:pos], v[pos:]
    above = c_up > r_up
    r_low[above] = c_up[above]
    c_low[above] = r_up[above]
    v_low[above] = v_up[above]
    return coo_matrix((v, (r, c)), shape=m.shape, dtype=m.dtype)
'''

HELPER = '''
def _reflect(m, skew):
    if m.shape[0] != m.shape[1]:
        raise ValueError('m must be a square matrix')
    if not isinstance(m, coo_matrix):
        m = coo_matrix(m)
    upper = m.col >= m.row
    rows_up = m.row[upper]
    cols_up = m.col[upper]
    vals_up = m.data[upper]
    num_up = rows_up.shape[0]
    rows = np.concatenate((rows_up, rows_up*0))
    cols = np.concatenate((cols_up, cols_up*0))
    vals = np.concatenate((vals_up, vals_up*0))
    off_diag = np.where(cols_up > rows_up)[0]
    rows[num_up + off_diag] = cols_up[off_diag]
    cols[num_up + off_diag] = rows_up[off_diag]
    if skew:
        vals[num_up + off_diag] = -vals_up[off_diag]
    else:
        vals[num_up + off_diag] = vals_up[off_diag]
    return coo_matrix((vals, (rows, cols)), shape=m.shape, dtype=m.dtype)


def make_symmetric(m):
    return _reflect(m, skew=False)


def make_skew_symmetric(m):
    return _reflect(m, skew=True)
'''


def functions(src, names):
    tree = ast.parse(src)
    keep = [n for n in tree.body if isinstance(n, ast.FunctionDef) and n.name in names]
    return ast.Module(body=keep, type_ignores=[])


CMP = [ast.Gt, ast.GtE, ast.Lt, ast.LtE, ast.Eq, ast.NotEq]


def mutants(mod):
    """yield (description, module)"""
    nodes = [n for n in ast.walk(mod)]
    for idx, n in enumerate(nodes):
        if isinstance(n, ast.Compare) and len(n.ops) == 1 and type(n.ops[0]) in CMP:
            for op in CMP:
                if op is not type(n.ops[0]):
                    m2 = copy.deepcopy(mod)
                    t = [x for x in ast.walk(m2)][idx]
                    t.ops = [op()]
                    yield 'cmp@%d->%s' % (n.lineno, op.__name__), m2
        if isinstance(n, ast.Name) and isinstance(n.ctx, ast.Load):
            pool = sorted({x.id for x in nodes if isinstance(x, ast.Name)} - {n.id, 'np', 'coo_matrix', 'isinstance', 'ValueError', 'm'})
            for other in pool:
                m2 = copy.deepcopy(mod)
                t = [x for x in ast.walk(m2)][idx]
                t.id = other
                yield 'name@%d:%s->%s' % (n.lineno, n.id, other), m2
        if isinstance(n, ast.UnaryOp) and isinstance(n.op, ast.USub):
            m2 = copy.deepcopy(mod)
            par = [x for x in ast.walk(m2)]
            for p in par:
                for f, v in ast.iter_fields(p):
                    if isinstance(v, ast.UnaryOp) and isinstance(v.op, ast.USub) and v.lineno == n.lineno:
                        setattr(p, f, v.operand)
            yield 'dropneg@%d' % n.lineno, m2
        if isinstance(n, ast.Assign) and isinstance(n.targets[0], ast.Subscript):
            m2 = copy.deepcopy(mod)
            t = [x for x in ast.walk(m2)][idx]
            t.value = ast.UnaryOp(op=ast.USub(), operand=t.value)
            yield 'addneg@%d' % n.lineno, m2
        if isinstance(n, ast.BinOp) and isinstance(n.op, ast.Add):
            for side in ('left', 'right'):
                m2 = copy.deepcopy(mod)
                for p in ast.walk(m2):
                    for f, v in ast.iter_fields(p):
                        if isinstance(v, ast.BinOp) and isinstance(v.op, ast.Add) and v.lineno == n.lineno and v.col_offset == n.col_offset:
                            setattr(p, f, getattr(v, side))
                yield 'dropadd@%d:%s' % (n.lineno, side), m2
        if isinstance(n, ast.Constant) and n.value == 0 and not isinstance(n.value, bool):
            m2 = copy.deepcopy(mod)
            t = [x for x in ast.walk(m2)][idx]
            t.value = 1
            yield 'const0->1@%d' % n.lineno, m2
    for fn in [f for f in mod.body if isinstance(f, ast.FunctionDef)]:
        for k, st in enumerate(fn.body):
            if isinstance(st, (ast.Assign,)):
                m2 = copy.deepcopy(mod)
                f2 = [f for f in m2.body if f.name == fn.name][0]
                del f2.body[k]
                yield 'del@%d' % st.lineno, m2
                m3 = copy.deepcopy(mod)
                f3 = [f for f in m3.body if f.name == fn.name][0]
                f3.body.insert(k, copy.deepcopy(f3.body[k]))
                yield 'dup@%d' % st.lineno, m3
                if k + 1 < len(fn.body) and isinstance(fn.body[k + 1], ast.Assign):
                    m4 = copy.deepcopy(mod)
                    f4 = [f for f in m4.body if f.name == fn.name][0]
                    f4.body[k], f4.body[k + 1] = f4.body[k + 1], f4.body[k]
                    yield 'swap@%d' % st.lineno, m4


def samples():
    rng = np.random.default_rng(5)
    out = []
    for n, nnz in ((1, 1), (2, 3), (3, 6), (5, 14), (7, 30), (4, 0)):
        r = rng.integers(0, n, nnz)
        c = rng.integers(0, n, nnz)
        v = rng.integers(1, 9, nnz).astype(float)
        if nnz > 2:
            v[1] = 0.
        out.append(coo_matrix((v, (r, c)), shape=(n, n)))
    return out


def concrete(mod, fname, ref, mats):
    ns = {'np': np, 'coo_matrix': coo_matrix}
    try:
        exec(compile(ast.fix_missing_locations(mod), '<mutant>', 'exec'), ns)
    except Exception as e:
        return 'raises'
    for m in mats:
        try:
            got = ns[fname](coo_matrix(m.copy()))
            if not isinstance(got, coo_matrix) and not hasattr(got, 'toarray'):
                return 'differs'
            if got.shape != m.shape or not np.array_equal(got.toarray(), ref(coo_matrix(m.copy())).toarray()):
                return 'differs'
        except Exception:
            return 'raises'
    return 'equal'


def main():
    ns = {'np': np, 'coo_matrix': coo_matrix}
    exec(compile(functions(SRC, ('make_symmetric', 'make_skew_symmetric')), '<ref>', 'exec'), ns)
    mats = samples()
    table = {}
    unsound = []
    false_alarm = []
    variants = [('repo', functions(SRC, ('make_symmetric', 'make_skew_symmetric'))),
                ('view', ast.parse(VIEW)), ('helper', ast.parse(HELPER))]
    total = 0
    for vname, mod in variants:
        for fname, sign in (('make_symmetric', 1), ('make_skew_symmetric', -1)):
            if not any(isinstance(f, ast.FunctionDef) and f.name == fname for f in mod.body):
                continue
            for desc, mut in mutants(mod):
                total += 1
                ast.fix_missing_locations(mut)
                try:
                    got, shape_ok = coosem.contributions(mut, fname)
                    verdict = 'MATCH' if (got == coosem.expected(sign) and shape_ok) else 'DIFF'
                except coosem.Unsupported:
                    verdict = 'UNSUPPORTED'
                except Exception as e:           # the interpreter must not crash on a mutant
                    verdict = 'CRASH:' + type(e).__name__
                conc = concrete(mut, fname, ns[fname], mats)
                table[(verdict, conc)] = table.get((verdict, conc), 0) + 1
                if verdict == 'MATCH' and conc != 'equal':
                    unsound.append((vname, fname, desc, conc))
                if verdict == 'DIFF' and conc == 'equal':
                    false_alarm.append((vname, fname, desc))
                if verdict.startswith('CRASH'):
                    unsound.append((vname, fname, desc, verdict))
    print('mutants', total)
    for k in sorted(table):
        print('  coosem %-12s concrete %-8s %d' % (k[0], k[1], table[k]))
    print('MATCH but not equal on the samples (unsound) or interpreter crash:', len(unsound))
    for u in unsound:
        print('   ', u)
    print('DIFF but equal on the samples (false alarm of the domain, or samples too weak):', len(false_alarm))
    for u in false_alarm[:40]:
        print('   ', u)
    return 1 if unsound else 0


if __name__ == '__main__':
    sys.exit(main())
