#!/usr/bin/env python3
"""write seeded/<id>/meta.json for the seventh wave from the agent's own meta, my confirmation logs and
the check-by-seed matrix (tools/seed_matrix.py --only <prefix> output given as JSON on argv[1])"""
import json
import os
import sys

VERIF = os.path.dirname(os.path.dirname(os.path.abspath(__file__)))
SD = os.path.join(VERIF, 'seeded')

# seventh wave: python-only changes in WHICH PATHS perform a derivation / refresh / reset
SEEDS = ['C07_w7A', 'C09_w7A', 'C13_w7A', 'C17_w7A', 'C18_w7A', 'C20_w7A']
MISSED = {'C20_w7A'}
FIRST = {'C17_w7A': {'C16': ['exit 2: anchor "branch building F from (E11, nu, h)" no longer found']},
         'C18_w7A': {'C18': ['exit 2: floor "prescribed amplitudes found in _rebuild" (0 < 3)']}}
ADDED = {
    'C20_w7A': 'missed at first (the laminate of Panel._rebuild re-read only when `self.lam is None or list(self.lam.stack) != list(self.stack)`); '
               'R20.9 added: a store of self.X that only runs under a test reading self.X itself must be one of the tabled default-filling instances',
    'C17_w7A': 'reported at first only as analysis-broken (exit 2, the anchor of R16.8 had moved under a new guard); R20.9 now reports the compute-once guard on self.F itself',
    'C18_w7A': 'reported at first only as analysis-broken (exit 2, floor of R18.2); R20.9 now reports the compute-once guard on self.excluded_dofs itself',
}
PREBUILT = set()


def main():
    matrix = json.load(open(sys.argv[1]))
    for sid in SEEDS:
        d = os.path.join(SD, sid)
        if not os.path.isdir(d):
            print('missing', sid)
            continue
        am = {}
        try:
            am = json.load(open(os.path.join(d, 'agent_meta.json')))
        except Exception:
            pass
        rc = lambda f: int(open(os.path.join(d, f)).read().strip()) if os.path.exists(os.path.join(d, f)) else None
        suite = open(os.path.join(d, 'suite_changed.log')).read().strip().split('\n')[-1] if os.path.exists(os.path.join(d, 'suite_changed.log')) else None
        res = matrix.get(sid, {})
        kernel = sid in PREBUILT
        meta = {
            'id': sid, 'property': sid[:3], 'variant': sid[-1], 'wave': 7,
            'author': 'independent sub-agent given only the property text and its own scratch worktree, steered towards pure-Python changes in which paths of an orchestration routine perform a derivation, refresh, reset or reduction (compute-once guards, resets moved, early exits), disguised as tidy-ups; nothing from /verif',
            'base_commit': '36323a0',
            'clause_broken': am.get('clause_broken'), 'files_changed': am.get('files_changed'),
            'what_it_needs_to_manifest': am.get('what_it_needs_to_manifest'), 'why_existing_tests_miss_it': am.get('why_existing_tests_miss_it'),
            'confirmed_by_me': {
                'how': ('kernel / C table: the agent\'s worktree with the patch applied (git diff == patch.diff checked) and the extension(s) rebuilt by the agent with the gcc recipe in agent_meta.json; demo on /repo (pristine), demo in the changed tree, full pinned suite in the changed tree'
                        if kernel else 'python-only: fresh scratch worktree (built extensions copied in), demo on pristine, git apply patch.diff, demo again, full pinned suite'),
                'demo_on_pristine_rc': rc('demo_pristine.rc'), 'demo_with_change_rc': rc('demo_changed.rc'), 'suite_with_change': suite},
            'caught_by': sorted(res), 'rules_reporting': {p: v['rules'] for p, v in sorted(res.items())},
            'reported_as_the_checks_stood': {} if sid in MISSED else FIRST.get(sid, {p: v['rules'] for p, v in sorted(res.items()) if not (sid in ('C17_w7A', 'C18_w7A') and p == 'C20')}),
            'static_run': 'tools/seed_matrix.py on the final tree',
            'history': ADDED.get(sid, 'reported from the start'),
        }
        json.dump(meta, open(os.path.join(d, 'meta.json'), 'w'), indent=1)
        ok = meta['confirmed_by_me']['demo_on_pristine_rc'] == 0 and meta['confirmed_by_me']['demo_with_change_rc'] not in (0, None) and suite and '34 passed' in suite and res and 'error' not in res
        print(sid, 'OK' if ok else 'CHECK', sorted(res))


if __name__ == '__main__':
    main()
