#!/usr/bin/env python3
"""(re)generate MANIFEST.json from the table below + which vcheck/cXX.py exist"""
import json, os
V = os.path.dirname(os.path.dirname(os.path.abspath(__file__)))
T = {
 'C01': ('proof', 'algebraic normal forms (ast dataflow + polynomial identity over Q)',
         'Lamina.rebuild / Laminate.calc_constitutive_matrix / read_stack / read_laminaprop are lowered to rational normal forms and compared with tensor rotation and the through-thickness integrals; corollaries (symmetry, offset law, B=0, order independence) follow mathematically.',
         'numpy broadcasting of += on 5x5 arrays; IEEE arithmetic; sin/cos of the same angle satisfy c^2+s^2=1', '3/C01'),
 'C02': ('proof', 'kernel lowering to polynomial normal forms over semantic integral atoms; energy-Hessian oracle; abstract interpretation of make_symmetric over an elementwise segment domain (vcheck/coosem.py)',
         'every emitted block of fk0/fk0y1y2 (plate, plate_w, cpanel, kpanel) is proved equal, as a polynomial identity valid for all m, n, flags, laminates and geometries, to the Hessian of the Donnell strain energy; index maps, triangle guard, role-swap symmetry, section/sub-interval frames, Python dispatch and symmetrisation are structural rules.',
         'C10 (integral tables exact), C01 (ABD block symmetry), faithful Cython/C arithmetic, no floating-point model', '3/C02'),
 'C03': ('proof', 'polynomial normal forms; homomorphism integral-atom -> point-atom; strain-table accumulators',
         'fkG0/fkG0y1y2 proved equal to the Hessian of the pre-stress work; fkG_num proved equal to the point-wise image with N = A eps + B kappa of the extracted strain accumulators; dispatch rules on Panel.calc_kG0/lb.',
         'C10; exactness of a chosen Gauss order is not decided', '3/C03'),
 'C04': ('proof', 'polynomial normal forms; sign-convention agreement across call sites',
         'fkM/fkMy1y2 proved equal to the kinetic-energy Hessian under the kernel\'s own offset convention; the convention is compared with the laminate offset convention at the Panel.calc_kM call sites (F-C04-1, repaired in /repo).',
         'C10; C01 offset convention', '3/C04'),
 'C05': ('other', 'sibling cross-check + CFG must-pass-through on solver pencil/transform, reduce/expand pairing; term-domain abstract interpretation (vcheck/termexec.py) and flow-sensitive value sets for remove_null_cols; documented load-case table vs pencil',
         'necessary structural clauses of the buckling solver (pencil roles and eigenvalue transform, null-column reduction/expansion pairing, column agreement) on the three sibling implementations; accuracy/order of ARPACK/LAPACK results is NOT decided.',
         'scipy eigsh/eigh semantics as documented', '3/C05'),
 'C06': ('other', 'CFG typestate (LIFO of reductions), sibling cross-check; term-domain abstract interpretation and flow-sensitive value sets for remove_null_cols',
         'necessary structural clauses of the frequency solver: pencil/transform table, LIFO undo of reductions, the same index arrays (one of them from a sort) applied to values and vectors in the same order; numerical accuracy NOT decided.',
         'scipy eigs/eig semantics as documented', '3/C06'),
 'C07': ('other', 'linear-form agreement between field and shape-function kernels; layout domain; call binding; flow-sensitive value sets for solve/static; term-domain abstract interpretation of remove_null_cols',
         'fext.c = sum force*reported displacement follows from the proved agreement cfg <-> cfuvw; offsets/inc/dispatch rules on calc_fext of Panel, PanelAssembly, StiffPanelBay; sparse.solve reduce/scatter pairing. spsolve accuracy NOT decided.',
         'C10 function tables', '3/C07'),
 'C08': ('proof', 'symbolic differentiation of extracted polynomials (Jacobian identity between code artefacts)',
         'calc_fint proved equal to sigma.d(eps)/dc; d(calc_fint)/dc (symbolic derivative of the extracted integrand) proved equal to fkL_num + fkG_num block by block; zero at c=0; linear part equals the analytic k0 integrand; orchestration rules for calc_kT / assemblies.',
         'C10; exactness of a chosen Gauss order is not decided', '3/C08'),
 'C09': ('other', 'hand-built statement CFG: dominance, def-use on paths, aliasing of snapshots, termination witnesses',
         'structural clauses of _solver_NR: appends dominated by the convergence test on the reported (total, c); snapshots are copies; loop exit witnesses; cut-back path. Termination/monotonicity as theorems over real sequences are NOT decided.',
         'Python semantics of list.append / ndarray.copy', '3/C09'),
 'C10': ('proof', 'exhaustive exact-rational verification of parsed C literals (own C-subset parser)',
         'all 180 function entries, 17 integral tables x 900 index pairs (absent cases included), 63 Gauss rules (all moments k<=2n-1, 110-digit decimal arithmetic), header/extern signatures and the trapezoid/Simpson point sets are verified against exact oracles.',
         'C compiler evaluates the parsed arithmetic faithfully; 15-digit literals compared with rtol 1e-11', '3/C10'),
 'C11': ('proof', 'linear-form extraction of series loops; series-loop linearity rule; prange effect analysis',
         'field kernels proved to be the Ritz series / strain table; NL terms must be formed from accumulated slopes (F-C11-1, repaired in /repo); stress = F.strain table, option forwarding, chunking/prange write-disjointness, slices per assembly group.',
         'C10 function tables', '3/C11'),
 'C12': ('proof', 'polynomial normal forms vs interface jump tables; call binding and placement rules',
         'all 15 connection kernels proved equal to the Hessian of kt/2 int|jump|^2 + kr/2 int rot^2; dispatch/placement/triangle rule on get_k0_conn (F-C12-1, repaired in /repo); calc_kt_kr symmetric and degree-1.',
         'C10', '3/C12'),
 'C13': ('other', 'linear layout domain (sums of get_size terms) + sibling agreement of consumers',
         'offset bookkeeping of PanelAssembly and StiffPanelBay: one layout extracted from calc_k0, every other consumer must agree; stiffener kernels as Gram forms.',
         'C02/C04/C12 results', '3/C13'),
 'C14': ('proof', 'sibling polynomial relations between extracted kernels (substitution, homomorphism, permutation, weights)',
         'kpanel[alpha=0]==cpanel, cpanel[1/r=0]==plate, plate_w==(w,w) of plate, numeric@0==analytic integrand, x<->y exchange automorphism, similarity weights; eigenvalue equality as numbers is NOT decided.',
         'C10', '3/C14'),
 'C16': ('proof', 'symbolic evaluation of the shell kernels in a polynomial ring with reciprocal and sign atoms and a Fourier normal form: exact strain-energy Hessian built from the package\'s own cfstrain functions (R16.7), cone kernels at zero angle telescoped over the sections against the cylinder kernels (R16.4), isotropic substitution (R16.2); homogeneity degree analysis (R16.1); loop-scope and stale-iteration-read rules (R16.5); call binding / CFG rules of the orchestration (R16.3); path analysis of ConeCyl._rebuild over the truthiness of (r1, r2, L, H): derived radius refreshed on every rebuild (R16.9)',
         'for the eight classical models k0 (cone and cylinder kernels) is proved equal, entry by entry and case by case, to the second derivative of the energy of the package\'s own linear strain field with the section radius frozen as the kernels freeze it (hence symmetric PSD); cone kernels at alpha = 0 proved equal to the cylinder kernels for k0 and kG0 of all 19 built linear modules (known finding F-C16-4: five FSDT modules differ); iso short-cuts == general models; kG linear in (Fc,P,T) and the load split adds up. NOT decided: PSD of the first-order-shear models; the limit of the section quadrature.',
         'source-level proof; the built .so files are not examined; amplitude 2 is always prescribed and left out', '3/C16'),
 'C17': ('proof', 'symbolic differentiation of the internal-force integrand (state scalars as linear forms, chain rule with linear-form matching) against the three tangent integrands read by walking the (row, col) writer and the value writer in lock step (R17.5); order analysis (R17.6); call-binding agreement, composition rule, prange effect analysis (R17.1-R17.4)',
         'for the ten general non-linear modules the residual d fint_A/d c_B - (k0L + k0L^T + kLL + kG)_AB is proved to be the zero polynomial at integrand level for every amplitude pair (known finding F-C17-2: the two FSDT modules fail), fint(0) = 0 and fint_NL = O(|c|^2) for the perfect shell; composition of kT and fint, configuration agreement of the four kernel calls, thread-independence structure of integratev. NOT decided: accuracy of the numerical integration, bit-identical sums across thread counts, the isotropic short-cut non-linear modules beyond the provenance of kG and fint.',
         'integrand-level identity; amplitude 2 (always prescribed) left out', '3/C17'),
 'C18': ('other', 'linear-form agreement fg<->fuvw, degree-in-inc analysis, Rat identities for geometry, inverse bookkeeping',
         'named clauses only (see DESIGN.md C18).', '', '3/C18'),
 'C19': ('proof', 'polynomial normal forms modulo integration by parts; mirror parity; Rat identities; call binding; abstract interpretation of make_skew_symmetric over an elementwise segment domain (vcheck/coosem.py)',
         'fkAx/fkAy/fcA proved equal to the piston-theory forms; parity of each term vs the mirror applied (known finding F-C19-1); Mach formulas as identities; call binding and coefficient forwarding (known findings F-C19-2/3).',
         'C10; precondition w restrained on flow edges', '3/C19'),
 'C20': ('other', 'typestate derive-before-read over CFG + call graph; effect analysis on caller inputs; dominance of accumulator resets; prange disjointness; path analysis of ConeCyl._rebuild (derived radius refreshed on every rebuild, R20.8); package-wide inventory of self-guarded attribute stores against a confirmed table (no compute-once cache of derived state, R20.9)',
         'derive-before-read of lazily derived attributes for every public entry point; caller inputs not mutated; idempotent in-place scalings; attribute accumulators reset in the same call; thread-independence structure.',
         'bit-identical floating point sums across thread counts NOT decided', '3/C20'),
}
NA = {'C15': 'monotone convergence / upper-bound statements are about eigenvalues of matrix sequences; no sound static argument in reach bounds them. Structural ingredients (nested trial space, exact energy Hessians, exact basis integrals) are decided under C02-C04, C10.'}
checks, na = [], []
for pid in sorted(T):
    level, tech, text, note, ref = T[pid]
    if not os.path.exists(os.path.join(V, 'vcheck', pid.lower() + '.py')):
        na.append({'property_id': pid, 'reason': 'check not built yet in this round (static rule designed in DESIGN.md section %s)' % ref})
        continue
    checks.append({'property_id': pid, 'quick_cmd': './check %s --tier quick' % pid, 'thorough_cmd': './check %s --tier thorough' % pid,
                   'evidence_file': 'evidence/%s.json' % pid, 'replay_cmd_template': './check %s --replay {path}' % pid,
                   'engine': 'vcheck', 'level_claimed': {'category': level, 'text': text, 'design_ref': 'DESIGN.md section ' + ref},
                   'level_note': note or 'python3 ast; source-level reasoning only',
                   'technique': 'static analysis: ' + tech + ('' if pid == 'C10' else '; a Python function that differs from the confirmed source is first compared with it by normal-form translation validation (vcheck/equiv.py): proved equal -> the rules read the confirmed version, otherwise the current one')})
for pid, why in NA.items():
    na.append({'property_id': pid, 'reason': why})
man = {'version': 1,
       'setup_cmd': 'python3 -c "import ast, fractions, decimal, concurrent.futures; print(\'vcheck needs only the python3 standard library\')"',
       'hooks': {'guard': 'COMPMECH_VERIF', 'enable': 'none needed: every check parses /repo sources, nothing is instrumented or built',
                 'baseline_off_cmd': 'cd /repo && /venv/bin/python -m pytest -ra -q -p no:cacheprovider --timeout=900 --continue-on-collection-errors',
                 'source_commits': [], 'add_only': True},
       'engines': [{'name': 'vcheck', 'path': 'vcheck/', 'serves_properties': [c['property_id'] for c in checks],
                    'kind_free_text': 'repository-specific static analyser: Cython-subset and C-table front ends, polynomial normal forms, CFG/dataflow rules'}],
       'checks': checks, 'not_applicable': na,
       'notes': 'All checks are static (no compmech code is imported or run). exit 0/1/2 = held / VIOLATION / ANALYSIS-ERROR. Known findings: known_findings.json.'}
json.dump(man, open(os.path.join(V, 'MANIFEST.json'), 'w'), indent=1)
print('claimed', [c['property_id'] for c in checks]); print('na', [n['property_id'] for n in na])
