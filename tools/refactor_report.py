#!/usr/bin/env python3
"""print the violation lines a check gives on a staged patch: tools/refactor_report.py SRC_DIR ID PROP [PROP...]"""
import os, subprocess, sys, tempfile, shutil
VERIF = os.path.dirname(os.path.dirname(os.path.abspath(__file__)))
sys.path.insert(0, os.path.join(VERIF, 'selftest'))
import run as st
src, sid = sys.argv[1], sys.argv[2]
tmp = tempfile.mkdtemp(prefix='vrr_')
try:
    tree = os.path.join(tmp, 'repo'); os.makedirs(tree); st.make_tree(tree)
    ptxt = open(os.path.join(src, sid, 'patch.diff')).read()
    for line in ptxt.split('\n'):
        if line.startswith('+++ b/'):
            f = os.path.join(tree, line[6:].strip())
            if os.path.exists(f):
                data = open(f, 'rb').read(); os.remove(f); open(f, 'wb').write(data)
    pr = subprocess.run(['patch', '-p1', '-s', '--no-backup-if-mismatch', '-d', tree], input=ptxt, text=True, capture_output=True)
    if pr.returncode:
        print('PATCH FAILS', pr.stdout, pr.stderr)
    for prop in sys.argv[3:]:
        q = subprocess.run([os.path.join(VERIF, 'check'), prop], capture_output=True, text=True, cwd=VERIF,
                           env=dict(os.environ, VERIF_REPO=tree, VERIF_EVIDENCE_DIR=os.path.join(tmp, 'ev'), VERIF_NO_SELFTEST='1'))
        print('==', sid, prop, 'rc', q.returncode)
        for l in (q.stdout + q.stderr).split('\n'):
            if ' rule ' in l or 'ANALYSIS-ERROR' in l or 'Traceback' in l or 'Error' in l or l.startswith('  File') or os.environ.get('ALL'):
                print('  ', l[:int(os.environ.get('W', '420'))])
finally:
    shutil.rmtree(tmp, ignore_errors=True)
