#!/bin/bash
# usage: seed_confirm.sh <PID> <suffix: "" or _B> [python-only|prebuilt]
# Confirms a seeded change independently: demo passes on pristine code, fails with the
# change, existing suite still passes with the change. Stores it under /verif/seeded/<PID><suffix>/
set -u
pid=$1; suf=${2:-}; mode=${3:-python-only}
out=/tmp/wt/${pid}_out
dst=/verif/seeded/${pid}${suf}
mkdir -p $dst
cp $out/patch${suf}.diff $dst/patch.diff
cp $out/demo${suf}.py $dst/demo.py
cp $out/meta${suf}.json $dst/agent_meta.json 2>/dev/null
wt=/tmp/wt/confirm_${pid}${suf}
git -C /repo worktree remove --force $wt >/dev/null 2>&1
if [ "$mode" = "prebuilt" ]; then
  # kernel change: the agent's worktree holds the rebuilt extension; pristine run uses /repo itself
  (cd /repo && timeout 900 /venv/bin/python $dst/demo.py > $dst/demo_pristine.log 2>&1; echo $? > $dst/demo_pristine.rc)
  src=/tmp/wt/${pid}
  (cd $src && git diff > /tmp/wt/${pid}_out/current_state.diff)
  (cd $src && timeout 900 /venv/bin/python $dst/demo.py > $dst/demo_changed.log 2>&1; echo $? > $dst/demo_changed.rc)
  (cd $src && timeout 3000 /venv/bin/python -m pytest -q -p no:cacheprovider --timeout=900 --continue-on-collection-errors compmech > $dst/suite_changed.log 2>&1)
else
  /verif/tools/mkwt.sh confirm_${pid}${suf} >/dev/null
  (cd $wt && timeout 900 /venv/bin/python $dst/demo.py > $dst/demo_pristine.log 2>&1; echo $? > $dst/demo_pristine.rc)
  (cd $wt && git apply $dst/patch.diff) || echo "PATCH DOES NOT APPLY" > $dst/apply_error
  (cd $wt && timeout 900 /venv/bin/python $dst/demo.py > $dst/demo_changed.log 2>&1; echo $? > $dst/demo_changed.rc)
  (cd $wt && timeout 3000 /venv/bin/python -m pytest -q -p no:cacheprovider --timeout=900 --continue-on-collection-errors compmech > $dst/suite_changed.log 2>&1)
  git -C /repo worktree remove --force $wt >/dev/null 2>&1
fi
echo "$pid$suf pristine_rc=$(cat $dst/demo_pristine.rc) changed_rc=$(cat $dst/demo_changed.rc) suite: $(tail -1 $dst/suite_changed.log)"
