#!/usr/bin/env python3
"""copy the analysed Python sources of /repo's tree into vcheck/reference/ (the versions the rules were confirmed on)
and regenerate vcheck/inventory.json.  Run after every commit to /repo."""
import os, shutil, subprocess, sys
REPO = os.environ.get('VERIF_REPO', '/repo')
VERIF = os.path.dirname(os.path.dirname(os.path.abspath(__file__)))
dst = os.path.join(VERIF, 'vcheck', 'reference')
shutil.rmtree(dst, ignore_errors=True)
files = [f for f in subprocess.check_output(['git', '-C', REPO, 'ls-files'], text=True).split('\n')
         if f.endswith('.py') and f.startswith('compmech/') and '/tests/' not in f and '/sympytools/' not in f]
for f in files:
    os.makedirs(os.path.dirname(os.path.join(dst, f)), exist_ok=True)
    shutil.copy(os.path.join(REPO, f), os.path.join(dst, f + '.ref'))
open(os.path.join(dst, 'HEAD'), 'w').write(subprocess.check_output(['git', '-C', REPO, 'rev-parse', 'HEAD'], text=True))
print(len(files), 'reference files')
subprocess.check_call([sys.executable, os.path.join(VERIF, 'tools', 'gen_inventory.py')])
